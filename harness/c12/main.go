// Harness for C12: feeds byte streams to the real yubiagent.ServeAgent (with a
// scripted YubiAgent, and - for a subset - with the concrete remote-mode server
// over a real upstream agent), observes panic / return value / response
// frames, and emits each run as a Coq case for Model.C12Check.
package main

import (
	"bytes"
	"crypto/ecdsa"
	"crypto/ed25519"
	"crypto/elliptic"
	"crypto/rsa"
	"crypto/x509"
	"crypto/x509/pkix"
	"encoding/binary"
	"encoding/hex"
	"encoding/pem"
	"errors"
	"fmt"
	"io"
	"log"
	"math/big"
	"math/rand"
	"net"
	"os"
	"path/filepath"
	"reflect"
	"runtime"
	"strings"
	"time"

	"github.com/rs/zerolog"
	"github.com/theparanoids/ysshra/agent/shimagent"
	"github.com/theparanoids/ysshra/agent/yubiagent"
	"golang.org/x/crypto/ssh"
	"golang.org/x/crypto/ssh/agent"
	"verifharness/core"
)

func main() {
	core.Main("C12", &core.Driver{
		Imports:   "From Verif Require Import Lib.Base Lib.Bytes Model.C12Check.",
		CheckFn:   "C12Check.check",
		ClassFn:   "C12Check.classify",
		CaseType:  "C12Check.case",
		Run:       runC12,
		ShardSize: 200,
	})
}

const maxFrame = 16 << 20

// ---------- deterministic key material (every choice from the run's PRNG) ----------

type rngReader struct{ r *rand.Rand }

func (x rngReader) Read(p []byte) (int, error) {
	for i := range p {
		p[i] = byte(x.r.Intn(256))
	}
	return len(p), nil
}

func detPrime(r *rand.Rand, bits int) *big.Int {
	for {
		b := make([]byte, bits/8)
		rngReader{r}.Read(b)
		b[0] |= 0xc0
		b[len(b)-1] |= 1
		p := new(big.Int).SetBytes(b)
		if p.ProbablyPrime(20) {
			return p
		}
	}
}

func detRSA(r *rand.Rand) *rsa.PrivateKey {
	for {
		p, q := detPrime(r, 1024), detPrime(r, 1024)
		if p.Cmp(q) == 0 {
			continue
		}
		n := new(big.Int).Mul(p, q)
		if n.BitLen() != 2048 {
			continue
		}
		p1, q1 := new(big.Int).Sub(p, big.NewInt(1)), new(big.Int).Sub(q, big.NewInt(1))
		phi := new(big.Int).Mul(p1, q1)
		e := big.NewInt(65537)
		d := new(big.Int).ModInverse(e, phi)
		if d == nil {
			continue
		}
		k := &rsa.PrivateKey{PublicKey: rsa.PublicKey{N: n, E: 65537}, D: d, Primes: []*big.Int{p, q}}
		k.Precompute()
		if k.Validate() == nil {
			return k
		}
	}
}

func detECDSA(r *rand.Rand, c elliptic.Curve) *ecdsa.PrivateKey {
	n := c.Params().N
	for {
		b := make([]byte, (n.BitLen()+7)/8)
		rngReader{r}.Read(b)
		d := new(big.Int).SetBytes(b)
		d.Mod(d, n)
		if d.Sign() == 0 {
			continue
		}
		x, y := c.ScalarBaseMult(d.Bytes())
		return &ecdsa.PrivateKey{PublicKey: ecdsa.PublicKey{Curve: c, X: x, Y: y}, D: d}
	}
}

func detEd25519(r *rand.Rand) ed25519.PrivateKey {
	seed := make([]byte, ed25519.SeedSize)
	rngReader{r}.Read(seed)
	return ed25519.NewKeyFromSeed(seed)
}

type material struct {
	pubs    []ssh.PublicKey // plain keys and certificates
	edPriv  ed25519.PrivateKey
	x509crt *x509.Certificate
	pem     []byte
}

func makeMaterial(r *rand.Rand, seed int64) (*material, error) {
	m := &material{}
	// randomness handed to crypto routines comes from its own stream: some of them read
	// a byte or not at random (randutil.MaybeReadByte), which must not shift the run's PRNG
	crnd := rngReader{rand.New(rand.NewSource(seed*7919 + 12))}
	rsaKey := detRSA(r)
	m.edPriv = detEd25519(r)
	caSigner, err := ssh.NewSignerFromKey(detEd25519(r))
	if err != nil {
		return nil, err
	}
	var raw []interface{}
	raw = append(raw, m.edPriv.Public(), &detECDSA(r, elliptic.P256()).PublicKey, &detECDSA(r, elliptic.P384()).PublicKey, &rsaKey.PublicKey)
	for i, k := range raw {
		pk, err := ssh.NewPublicKey(k)
		if err != nil {
			return nil, err
		}
		m.pubs = append(m.pubs, pk)
		if i == 3 { // no certificate for the RSA key: keeps the streams small
			continue
		}
		cert := &ssh.Certificate{Key: pk, Serial: uint64(i + 1), CertType: ssh.UserCert, KeyId: fmt.Sprintf("id-%d", i),
			ValidPrincipals: []string{"alice"}, ValidAfter: 0, ValidBefore: ssh.CertTimeInfinity,
			Permissions: ssh.Permissions{Extensions: map[string]string{"permit-pty": ""}}}
		if err := cert.SignCert(crnd, caSigner); err != nil {
			return nil, err
		}
		m.pubs = append(m.pubs, cert)
	}
	xk := detECDSA(r, elliptic.P256())
	tmpl := &x509.Certificate{SerialNumber: big.NewInt(7), Subject: pkix.Name{CommonName: "slot 9a"},
		NotBefore: time.Unix(1700000000, 0), NotAfter: time.Unix(1900000000, 0)}
	// issued by the RSA key: PKCS#1 v1.5 signing is deterministic, so the certificate is reproducible
	der, err := x509.CreateCertificate(crnd, tmpl, tmpl, &xk.PublicKey, rsaKey)
	if err != nil {
		return nil, err
	}
	if m.x509crt, err = x509.ParseCertificate(der); err != nil {
		return nil, err
	}
	m.pem = pem.EncodeToMemory(&pem.Block{Type: "CERTIFICATE", Bytes: m.x509crt.Raw})
	return m, nil
}

// ---------- the scripted agent: answers are fixed functions of the arguments
// (the same functions are written in Gallina in Model/C12Check.v) ----------

type fakeAgent struct {
	m     *material
	calls int
}

func (f *fakeAgent) List() ([]*agent.Key, error) {
	f.calls++
	var ks []*agent.Key
	for i, p := range f.m.pubs {
		ks = append(ks, &agent.Key{Format: p.Type(), Blob: p.Marshal(), Comment: fmt.Sprintf("key-%d", i)})
	}
	return ks, nil
}
func (f *fakeAgent) Sign(key ssh.PublicKey, data []byte) (*ssh.Signature, error) {
	return f.SignWithFlags(key, data, 0)
}
func (f *fakeAgent) SignWithFlags(key ssh.PublicKey, data []byte, flags agent.SignatureFlags) (*ssh.Signature, error) {
	f.calls++
	if len(data)%4 == 3 {
		return nil, errors.New("sign refused")
	}
	return &ssh.Signature{Format: key.Type(), Blob: append([]byte{byte(flags)}, data...)}, nil
}
func (f *fakeAgent) Add(key agent.AddedKey) error {
	f.calls++
	if len(key.Comment)%2 == 1 {
		return errors.New("add refused")
	}
	return nil
}
func (f *fakeAgent) Remove(key ssh.PublicKey) error { f.calls++; return errors.New("no such key") }
func (f *fakeAgent) RemoveAll() error               { f.calls++; return nil }
func (f *fakeAgent) Lock(p []byte) error {
	f.calls++
	if len(p) == 0 {
		return errors.New("empty passphrase")
	}
	return nil
}
func (f *fakeAgent) Unlock(p []byte) error          { f.calls++; return nil }
func (f *fakeAgent) Signers() ([]ssh.Signer, error) { f.calls++; return nil, nil }
func (f *fakeAgent) Extension(t string, c []byte) ([]byte, error) {
	f.calls++
	return nil, agent.ErrExtensionUnsupported
}
func (f *fakeAgent) Forward(req []byte) ([]byte, error) {
	f.calls++
	if len(req)%5 == 4 {
		return nil, errors.New("forward failed")
	}
	return append([]byte{170}, req...), nil
}
func (f *fakeAgent) AddHardCert(key ssh.PublicKey, comment string) error {
	f.calls++
	if len(comment)%3 == 1 {
		return errors.New("add:" + comment)
	}
	return nil
}
func (f *fakeAgent) Wait(code byte) error {
	f.calls++
	if code%2 == 1 {
		return errors.New("wait:" + string([]byte{code}))
	}
	return nil
}
func (f *fakeAgent) Close() error { return nil }
func (f *fakeAgent) ListSlots() ([]string, error) {
	f.calls++
	return []string{"9a", "9c", "82"}, nil
}
func (f *fakeAgent) ReadSlot(slot string) (*x509.Certificate, error) {
	f.calls++
	if slot == "9a" {
		return f.m.x509crt, nil
	}
	return nil, errors.New("no certificate in slot " + slot)
}
func (f *fakeAgent) AttestSlot(slot string) (*x509.Certificate, error) {
	f.calls++
	if slot == "9a" {
		return f.m.x509crt, nil
	}
	return nil, errors.New("cannot attest slot " + slot)
}
func (f *fakeAgent) AddSmartcardKey(string, []byte, time.Duration, bool) error {
	return errors.New("n/a")
}
func (f *fakeAgent) RemoveSmartcardKey(string, []byte) error { return errors.New("n/a") }

// ---------- running one stream ----------

type memConn struct {
	in  *bytes.Reader
	out bytes.Buffer
}

func (m *memConn) Read(p []byte) (int, error)  { return m.in.Read(p) }
func (m *memConn) Write(p []byte) (int, error) { return m.out.Write(p) }

type failConn struct {
	in     *bytes.Reader
	writes int
	failAt int
}

func (m *failConn) Read(p []byte) (int, error) { return m.in.Read(p) }
func (m *failConn) Write(p []byte) (int, error) {
	m.writes++
	if m.writes >= m.failAt {
		return 0, errors.New("peer went away")
	}
	return len(p), nil
}

type observation struct {
	panicked bool
	panicMsg string
	hung     bool
	err      error
	frames   [][]byte
	junk     bool
	alloc    uint64
}

func frame(b []byte) []byte {
	out := make([]byte, 4, 4+len(b))
	binary.BigEndian.PutUint32(out, uint32(len(b)))
	return append(out, b...)
}

func parseFrames(out []byte) (frames [][]byte, junk bool) {
	for len(out) > 0 {
		if len(out) < 4 {
			return frames, true
		}
		l := int(binary.BigEndian.Uint32(out))
		if len(out)-4 < l {
			return frames, true
		}
		frames = append(frames, out[4:4+l])
		out = out[4+l:]
	}
	return frames, false
}

func serveStream(ag yubiagent.YubiAgent, stream []byte, timeout time.Duration, measure bool) observation {
	var o observation
	conn := &memConn{in: bytes.NewReader(stream)}
	done := make(chan struct{})
	var before, after runtime.MemStats
	if measure {
		runtime.GC()
		runtime.ReadMemStats(&before)
	}
	go func() {
		defer close(done)
		o.panicked, o.panicMsg = core.Guard(func() { o.err = yubiagent.ServeAgent(ag, conn) })
	}()
	select {
	case <-done:
	case <-time.After(timeout):
		o.hung = true
		return o
	}
	if measure {
		runtime.ReadMemStats(&after)
		o.alloc = after.TotalAlloc - before.TotalAlloc
	}
	o.frames, o.junk = parseFrames(conn.out.Bytes())
	return o
}

// splitFrames: the harness's own reading of a stream (complete frames with a
// declared length in 1..16 MiB), used to find the byte strings the key parser
// may be asked about.
func splitFrames(s []byte) [][]byte {
	var fs [][]byte
	for len(s) >= 4 {
		l := int(binary.BigEndian.Uint32(s))
		if l == 0 || l > maxFrame || len(s)-4 < l {
			break
		}
		fs = append(fs, s[4:4+l])
		s = s[4+l:]
	}
	return fs
}

type addReq struct {
	KeyBlob []byte `sshtype:"31"`
	Comment string
}

func keyTable(stream []byte) (tab [][]byte, oks []bool, needPem bool) {
	seen := map[string]bool{}
	add := func(b []byte) {
		if seen[string(b)] {
			return
		}
		seen[string(b)] = true
		_, err := ssh.ParsePublicKey(b)
		tab = append(tab, b)
		oks = append(oks, err == nil)
	}
	for _, f := range splitFrames(stream) {
		switch f[0] {
		case yubiagent.AgentMessageAddHardCert:
			add(f[1:])
			var m addReq
			if ssh.Unmarshal(f, &m) == nil {
				add(m.KeyBlob)
			}
		case yubiagent.AgentMessageReadSlot, yubiagent.AgentMessageAttestSlot:
			if string(f[1:]) == "9a" {
				needPem = true
			}
		}
	}
	return
}

func gHex(b []byte) string { return `(hx "` + hex.EncodeToString(b) + `")` }

func short(b []byte) string {
	if len(b) > 96 {
		return hex.EncodeToString(b[:96]) + fmt.Sprintf("...(%d bytes)", len(b))
	}
	return hex.EncodeToString(b)
}

// ---------- a crash class inside the pinned x/crypto, probed separately ----------

// xcryptoConstraintPanic reports whether x/crypto's own agent server (the
// pinned golang.org/x/crypto, ssh/agent) panics in parseConstraints on this
// single request body.  v0.35.0 slices constraints[1:5] of an add-identity
// request (codes 17 / 25) without checking the length (CVE-2025-47914, fixed
// upstream in v0.45.0).  That class is probed explicitly under the key
// K4-xcrypto-constraints and kept out of the generic streams so that it is not
// reported twice; any OTHER panic stays in the streams and is a violation.
func xcryptoConstraintPanic(m *material, body []byte) bool {
	if len(body) == 0 || (body[0] != yubiagent.AgentMessageAddIdentity && body[0] != yubiagent.AgentMessageAddIDConstrained) {
		return false
	}
	conn := &memConn{in: bytes.NewReader(frame(body))}
	p, _ := core.Guard(func() { _ = agent.ServeAgent(&fakeAgent{m: m}, conn) })
	// any panic of x/crypto's server while it decodes this add-identity request (the constraint slice above, or
	// key material that makes the key constructors panic, e.g. an RSA prime equal to 1): ysshra owes an error
	return p
}

// rsaAddIdentity: an add-identity request (code 17) carrying an ssh-rsa private key with these numbers.
func rsaAddIdentity(n, e, d, iqmp, p, q int64) []byte {
	body := ssh.Marshal(struct {
		Type                string
		N, E, D, Iqmp, P, Q *big.Int
		Comment             string
	}{"ssh-rsa", big.NewInt(n), big.NewInt(e), big.NewInt(d), big.NewInt(iqmp), big.NewInt(p), big.NewInt(q), "k"})
	return append([]byte{yubiagent.AgentMessageAddIdentity}, body...)
}

func (x *runner) probeXCrypto(g *gen) {
	c := x.c
	minimal, _ := hex.DecodeString("0000001d190000000b7373682d6564323535313900000000000000000000000001")
	streams := [][]byte{minimal}
	for _, b := range g.stdReq { // the captured constrained add request (lifetime 30 s + confirm), cut inside the lifetime value
		if b[0] == yubiagent.AgentMessageAddIDConstrained && len(b) > 6 {
			streams = append(streams, append(frame([]byte{yubiagent.AgentMessageListSlots}), frame(b[:len(b)-3])...))
			break
		}
	}
	// degenerate RSA private keys: a prime equal to 1 makes the key's precomputation divide by zero inside x/crypto's
	// server (a panic whose value is not a runtime error); other degenerate numbers for comparison
	for _, v := range [][6]int64{{15, 3, 3, 1, 1, 15}, {15, 3, 3, 1, 15, 1}, {35, 5, 5, 1, 1, 35}, {15, 3, 3, 1, 3, 5}, {15, 3, 3, 1, 0, 15}, {1, 1, 1, 1, 1, 1}, {9, 3, 3, 1, 3, 3}} {
		streams = append(streams, append(frame([]byte{yubiagent.AgentMessageListSlots}), frame(rsaAddIdentity(v[0], v[1], v[2], v[3], v[4], v[5]))...))
	}
	for _, s := range append([][]byte{}, streams...) {
		streams = append(streams, append(append([]byte{}, s...), frame([]byte{yubiagent.AgentMessageRequestIdentities})...))
	}
	// the decoder of x/crypto's server alone, on add-identity requests whose constraint list is cut, extended or garbled:
	// which of them make it panic is what AgentStd.dec_req says
	x.stdDec(minimal[4:])
	for _, b := range g.stdReq {
		if b[0] != yubiagent.AgentMessageAddIDConstrained && b[0] != yubiagent.AgentMessageAddIdentity {
			continue
		}
		for cut := 1; cut <= 8 && cut < len(b); cut++ {
			x.stdDec(b[:len(b)-cut])
		}
		for _, tail := range [][]byte{{1}, {1, 0}, {1, 0, 0}, {1, 0, 0, 0}, {1, 0, 0, 0, 9}, {2}, {2, 2}, {2, 1}, {2, 1, 0, 0, 0, 5, 1}, {3}, {255}, {4},
			{255, 0, 0, 0, 1, 'x', 0, 0, 0, 0}, {255, 0, 0, 0, 1, 'x', 0, 0, 0, 0, 1}, {3, 0, 0, 0, 0, 0, 0, 0, 2, 7, 7, 1, 0, 0}, {255, 0, 0, 0, 9, 'x'}} {
			x.stdDec(append(append([]byte{}, b...), tail...))
		}
	}
	for _, s := range streams {
		o := serveStream(x.fake, s, 20*time.Second, false)
		if o.panicked || o.hung {
			c.Native("ServeAgent crashed or hung on a cut add-identity request: "+strings.SplitN(o.panicMsg, "\n", 2)[0], map[string]interface{}{"stream_hex": hex.EncodeToString(s)})
			return
		}
		if nreq := len(splitFrames(s)); o.err == nil && len(o.frames) < nreq {
			c.Native(fmt.Sprintf("ServeAgent neither answered a cut add-identity request nor ended the connection with an error: %d complete request frames, %d response frames, returned nil",
				nreq, len(o.frames)), map[string]interface{}{"stream_hex": hex.EncodeToString(s)})
			return
		}
		c.NativeCheck(1)
	}
}

// ---------- the real server behind the frames ----------

// realServerFrames: add-hardware-certificate frames (both encodings) served by a REAL yubiagent server over a real
// shim agent and a key-ring agent - the code the mock agent of the other streams stands in for.  The certificates
// carry KeyIds of every shape (YSSHCA KeyIds with edge values in their numeric members, near misses, free text).
func (x *runner) realServerFrames() {
	c := x.c
	dir, err := os.MkdirTemp("", "verif-c12-")
	if err != nil {
		c.Note("no temp dir: " + err.Error())
		return
	}
	defer os.RemoveAll(dir)
	sock := filepath.Join(dir, "agent.sock")
	ln, err := net.Listen("unix", sock)
	if err != nil {
		c.Note("cannot listen: " + err.Error())
		return
	}
	defer ln.Close()
	keyring := agent.NewKeyring()
	_ = keyring.Add(agent.AddedKey{PrivateKey: &x.m.edPriv, Comment: "held"})
	go func() {
		for {
			cn, err := ln.Accept()
			if err != nil {
				return
			}
			go func() { _ = agent.ServeAgent(keyring, cn); cn.Close() }()
		}
	}()
	srv, err := yubiagent.NewServer(sock, true)
	if err != nil {
		c.Native("cannot start a yubiagent server over a key-ring agent: "+err.Error(), nil)
		return
	}
	defer func() { core.Guard(func() { _ = srv.Close() }) }()
	edSigner, _ := ssh.NewSignerFromKey(x.m.edPriv)
	caSigner, _ := ssh.NewSignerFromKey(x.m.edPriv)
	base := `{"prins":["u"],"transID":"a1b2c3","reqUser":"u","reqIP":"10.0.0.1","reqHost":"h","isFirefighter":false,"isHWKey":true,"isHeadless":false,"isNonce":false,"touchPolicy":2,"ver":1`
	var kids []string
	for _, u := range []string{"", `,"usage":0`, `,"usage":1`, `,"usage":2`, `,"usage":-1`, `,"usage":-2147483648`, `,"usage":1099511627776`, `,"usage":9223372036854775807`, `,"usage":-9223372036854775808`} {
		kids = append(kids, base+u+"}")
	}
	for _, tp := range []string{"-1", "0", "4", "100", "-9223372036854775808"} {
		kids = append(kids, strings.Replace(base, `"touchPolicy":2`, `"touchPolicy":`+tp, 1)+"}")
	}
	kids = append(kids, strings.Replace(base, `"isHWKey":true`, `"isHWKey":true,"isFirefighter":true`, 1)+`,"usage":1}`,
		strings.Replace(base, `"ver":1`, `"ver":65535`, 1)+"}", strings.Replace(base, `"transID":"a1b2c3"`, `"transID":"A1B2C3"`, 1)+"}",
		"free text", "", "{}", `{"ver":1}`)
	n := 0
	for i, kid := range kids {
		cert := &ssh.Certificate{Key: edSigner.PublicKey(), Serial: uint64(i + 1), CertType: ssh.UserCert, KeyId: kid,
			ValidPrincipals: []string{"u"}, ValidAfter: 1, ValidBefore: ssh.CertTimeInfinity}
		if err := cert.SignCert(rngReader{x.c.Rng}, caSigner); err != nil {
			continue
		}
		blob := cert.Marshal()
		newEnc := ssh.Marshal(struct {
			KeyBlob []byte `sshtype:"31"`
			Comment string
		}{blob, "c"})
		legacy := append([]byte{yubiagent.AgentMessageAddHardCert}, blob...)
		for _, body := range [][]byte{newEnc, legacy} {
			s := append(frame(body), frame([]byte{yubiagent.AgentMessageRequestIdentities})...)
			o := serveStream(srv, s, 20*time.Second, false)
			in := map[string]interface{}{"keyid": kid, "stream_hex": short(s)}
			switch {
			case o.panicked || o.hung:
				c.Native("a real yubiagent server crashed or hung on an add-hardware-certificate frame: "+strings.SplitN(o.panicMsg, "\n", 2)[0], in)
			case o.err == nil && len(o.frames) != 2:
				c.Native(fmt.Sprintf("a real yubiagent server answered %d of 2 complete request frames and returned nil", len(o.frames)), in)
			default:
				n++
			}
		}
	}
	c.NativeCheck(n)
}

// ---------- generators ----------

type gen struct {
	capOversize bool // set once a missing bound was observed: keep declared lengths small so the harness survives
	r           *rand.Rand
	m           *material
	stdReq      [][]byte // valid standard-agent request bodies captured from x/crypto's client
	extReq      [][]byte // valid requests with codes the switch does not list (raw forward)
}

// captureRequests records the request bodies x/crypto's agent client puts on
// the wire for the calls made by f (every request is answered with failure).
func captureRequests(f func(ag agent.ExtendedAgent)) [][]byte {
	c1, c2 := net.Pipe()
	var reqs [][]byte
	done := make(chan struct{})
	go func() {
		defer close(done)
		for {
			var l [4]byte
			if _, err := io.ReadFull(c2, l[:]); err != nil {
				return
			}
			b := make([]byte, binary.BigEndian.Uint32(l[:]))
			if _, err := io.ReadFull(c2, b); err != nil {
				return
			}
			reqs = append(reqs, b)
			if _, err := c2.Write([]byte{0, 0, 0, 1, 5}); err != nil {
				return
			}
		}
	}()
	f(agent.NewClient(c1))
	c1.Close()
	<-done
	return reqs
}

func newGen(r *rand.Rand, m *material) *gen {
	g := &gen{r: r, m: m}
	all := captureRequests(func(ag agent.ExtendedAgent) {
		ag.List()
		for i, p := range m.pubs {
			ag.Sign(p, []byte(strings.Repeat("d", i*7)))
			ag.SignWithFlags(p, []byte("flags"), agent.SignatureFlagRsaSha256)
			ag.Remove(p)
		}
		priv := m.edPriv
		ag.Add(agent.AddedKey{PrivateKey: &priv, Comment: "plain"})
		ag.Add(agent.AddedKey{PrivateKey: &priv, Comment: "constrained", LifetimeSecs: 30, ConfirmBeforeUse: true})
		ag.RemoveAll()
		ag.Lock([]byte("pass"))
		ag.Lock(nil)
		ag.Unlock([]byte("pass"))
		ag.Extension("query", []byte("x"))
		ag.Extension("session-bind@openssh.com", []byte{1, 2, 3})
	})
	std := map[byte]bool{1: true, 11: true, 13: true, 17: true, 18: true, 19: true, 22: true, 23: true, 25: true}
	for _, b := range all {
		if len(b) > 0 && std[b[0]] {
			g.stdReq = append(g.stdReq, b)
		} else {
			g.extReq = append(g.extReq, b)
		}
	}
	g.stdReq = append(g.stdReq, []byte{1}) // RequestV1Identities
	return g
}

func (g *gen) bytesN(n int) []byte {
	b := make([]byte, n)
	for i := range b {
		b[i] = byte(g.r.Intn(256))
	}
	return b
}

var slotNames = []string{"9a", "9a", "9c", "9d", "9e", "f9", "82", "", "x", "9a ", "日本", "a,b", "\x00\xff", strings.Repeat("s", 40)}
var comments = []string{"", "a", "ab", "abc", "yubikey #1", "SUCCESS", "ünï", "x,y", strings.Repeat("c", 33), "c\x00d"}

// validFrame: a well-formed request body of the given kind.
func (g *gen) validFrame(kind int) []byte {
	r := g.r
	switch kind {
	case 0: // add-hard-cert, new encoding
		k := g.m.pubs[r.Intn(len(g.m.pubs))]
		return ssh.Marshal(addReq{KeyBlob: k.Marshal(), Comment: comments[r.Intn(len(comments))]})
	case 1: // add-hard-cert, legacy encoding
		k := g.m.pubs[r.Intn(len(g.m.pubs))]
		return append([]byte{yubiagent.AgentMessageAddHardCert}, k.Marshal()...)
	case 2:
		b := []byte{yubiagent.AgentMessageListSlots}
		if r.Intn(4) == 0 {
			b = append(b, g.bytesN(r.Intn(6))...)
		}
		return b
	case 3:
		return append([]byte{yubiagent.AgentMessageReadSlot}, slotNames[r.Intn(len(slotNames))]...)
	case 4:
		return append([]byte{yubiagent.AgentMessageAttestSlot}, slotNames[r.Intn(len(slotNames))]...)
	case 5:
		b := []byte{yubiagent.AgentMessageWait, byte(r.Intn(256))}
		if r.Intn(5) == 0 {
			b = append(b, g.bytesN(r.Intn(4))...)
		}
		return b
	case 6:
		return g.stdReq[r.Intn(len(g.stdReq))]
	case 7:
		return g.extReq[r.Intn(len(g.extReq))]
	default: // unknown code with a random body
		for {
			c := byte(r.Intn(256))
			switch c {
			case 1, 11, 13, 17, 18, 19, 22, 23, 25, 31, 32, 33, 34, 35:
				continue
			}
			return append([]byte{c}, g.bytesN(r.Intn(12))...)
		}
	}
}

// brokenFrame: a complete frame whose body is not a well-formed request.
func (g *gen) brokenFrame() []byte {
	r := g.r
	switch r.Intn(7) {
	case 0: // add-hard-cert with a damaged key blob
		k := g.m.pubs[r.Intn(len(g.m.pubs))].Marshal()
		k = append([]byte{}, k...)
		switch r.Intn(3) {
		case 0:
			k = k[:r.Intn(len(k))]
		case 1:
			k[r.Intn(12)] ^= 0x55
		default:
			k = append(k, g.bytesN(1+r.Intn(4))...)
		}
		if r.Intn(2) == 0 {
			return append([]byte{yubiagent.AgentMessageAddHardCert}, k...)
		}
		return ssh.Marshal(addReq{KeyBlob: k, Comment: "c"})
	case 1: // add-hard-cert, new encoding with trailing bytes / truncated comment
		k := g.m.pubs[r.Intn(len(g.m.pubs))]
		b := ssh.Marshal(addReq{KeyBlob: k.Marshal(), Comment: "tail"})
		if r.Intn(2) == 0 {
			return append(b, g.bytesN(1+r.Intn(3))...)
		}
		return b[:len(b)-1-r.Intn(3)]
	case 2:
		return []byte{yubiagent.AgentMessageAddHardCert}
	case 3:
		return []byte{yubiagent.AgentMessageWait}
	case 4: // standard request with a random body
		c := []byte{1, 11, 13, 17, 18, 19, 22, 23, 25}[r.Intn(9)]
		return append([]byte{c}, g.bytesN(r.Intn(20))...)
	case 5: // a standard request cut short
		b := g.stdReq[r.Intn(len(g.stdReq))]
		return b[:1+r.Intn(len(b))]
	default:
		return append([]byte{yubiagent.AgentMessageAddHardCert}, g.bytesN(r.Intn(40))...)
	}
}

// tail: what may follow the last complete frame.
func (g *gen) tail() []byte {
	r := g.r
	switch r.Intn(8) {
	case 0, 1, 2:
		return nil
	case 3: // cut length prefix
		return g.bytesN(1 + r.Intn(3))
	case 4: // complete prefix, body cut (possibly no body byte at all)
		l := 1 + r.Intn(300)
		var p [4]byte
		binary.BigEndian.PutUint32(p[:], uint32(l))
		return append(p[:], g.bytesN(r.Intn(l))...)
	case 5: // oversized declaration, with or without following bytes
		l := uint32(maxFrame + 1 + r.Intn(1000))
		if r.Intn(2) == 0 && !g.capOversize {
			l = uint32(maxFrame) + uint32(r.Int63n(int64(1<<32-maxFrame-1))) + 1
		}
		var p [4]byte
		binary.BigEndian.PutUint32(p[:], l)
		return append(p[:], g.bytesN(r.Intn(9))...)
	case 6: // zero-length frame, possibly followed by a valid one
		t := []byte{0, 0, 0, 0}
		if r.Intn(2) == 0 {
			t = append(t, frame(g.validFrame(2))...)
		}
		return t
	default: // a valid body declared one byte too long
		b := g.validFrame(r.Intn(9))
		f := frame(b)
		binary.BigEndian.PutUint32(f, uint32(len(b)+1))
		return f
	}
}

func noLowWait(b []byte) []byte {
	// the concrete server really waits on codes < 40: keep those for the
	// two-connection choreography and use codes >= 40 in single streams
	if len(b) >= 2 && b[0] == yubiagent.AgentMessageWait && b[1] < 40 {
		b = append([]byte{}, b...)
		b[1] |= 0x40
	}
	return b
}

// ---------- the driver ----------

type runner struct {
	c    *core.Ctx
	fake *fakeAgent
	m    *material
	// standard-class request bodies already handed to x/crypto's server alone (nil: not collecting)
	stdSeen map[string]bool
}

// stdDec hands one standard-class request body to x/crypto's agent server alone and emits how it fared beside the
// body (C12Check.CStdDec): the model of that server's decoder (AgentStd.dec_req) says on which bodies it panics.
func (x *runner) stdDec(f []byte) {
	if len(f) == 0 || len(f) > 4096 || x.stdSeen == nil {
		return
	}
	switch f[0] {
	case 11, 13, 17, 18, 19, 22, 23, 25:
	default:
		return
	}
	if x.stdSeen[string(f)] || len(x.stdSeen) >= x.c.N(600, 6000) {
		return
	}
	x.stdSeen[string(f)] = true
	conn := &memConn{in: bytes.NewReader(frame(f))}
	p, msg := core.Guard(func() { _ = agent.ServeAgent(&fakeAgent{m: x.m}, conn) })
	if p && !strings.Contains(msg, "slice bounds out of range") {
		// key material on which x/crypto's key constructors panic (an RSA prime equal to 1): outside the model
		x.c.Stat("standard requests on which x/crypto panics outside its constraint parser (not compared)")
		return
	}
	x.c.Case("standard-request-decoder", core.GApp("CStdDec", gHex(f), core.GBool(p)),
		map[string]interface{}{"request_hex": short(f), "xcrypto_server_panics": p})
}

func (x *runner) emit(class string, exact bool, ag yubiagent.YubiAgent, stream []byte, measure bool) observation {
	c := x.c
	for _, f := range splitFrames(stream) {
		x.stdDec(f)
	}
	for _, f := range splitFrames(stream) {
		if xcryptoConstraintPanic(x.m, f) {
			// x/crypto's own server panics on this frame; ysshra's ServeAgent must end the connection with an
			// error instead (fixed: 19af1af).  No reply is owed, so the stream is judged by the no-crash oracle only.
			c.Stat("streams with a frame on which the x/crypto agent server itself panics (no-crash oracle only)")
			o := serveStream(ag, stream, 20*time.Second, false)
			nreq := len(splitFrames(stream))
			switch {
			case o.panicked || o.hung:
				c.Native("ServeAgent crashed or hung on a malformed standard request ("+class+"): "+strings.SplitN(o.panicMsg, "\n", 2)[0],
					map[string]interface{}{"stream_hex": short(stream)})
			case exact && o.err == nil && len(o.frames) < nreq:
				// "it either answers or ends that connection with an error": swallowing the request and carrying on is neither
				c.Native(fmt.Sprintf("ServeAgent neither answered a request nor ended the connection with an error (%s): %d complete request frames, %d response frames, returned nil",
					class, nreq, len(o.frames)), map[string]interface{}{"stream_hex": short(stream)})
			default:
				c.NativeCheck(1)
			}
			return observation{}
		}
	}
	o := serveStream(ag, stream, 20*time.Second, measure)
	human := map[string]interface{}{"stream_hex": short(stream), "exact": exact}
	if o.hung {
		c.Native("ServeAgent did not return within 20s ("+class+")", human)
		return o
	}
	if o.panicked {
		// reported through the oracle-rejected case below (o_panic = true) with the full stream
		human["panic"] = strings.SplitN(o.panicMsg, "\n", 2)[0]
	}
	tab, oks, needPem := keyTable(stream)
	var rows []string
	for i := range tab {
		rows = append(rows, core.GPair(gHex(tab[i]), core.GBool(oks[i])))
	}
	pemTerm := "[]"
	if needPem && exact {
		pemTerm = gHex(x.m.pem)
	}
	var fr []string
	for _, f := range o.frames {
		fr = append(fr, gHex(f))
	}
	human["returned_error"] = fmt.Sprint(o.err)
	human["response_frames"] = len(o.frames)
	term := core.GApp("CServe", core.GBool(exact), core.GList(rows), pemTerm, gHex(stream),
		core.GApp("mkObs", core.GBool(o.panicked), core.GBool(o.err != nil), core.GList(fr), core.GBool(o.junk)))
	c.Case(class, term, human)
	return o
}

func runC12(c *core.Ctx) {
	r := c.Rng
	log.SetOutput(io.Discard) // x/crypto's agent server logs every failed request
	zerolog.SetGlobalLevel(zerolog.Disabled)
	m, err := makeMaterial(r, c.Seed)
	if err != nil {
		c.Native("harness could not build key material: "+err.Error(), nil)
		return
	}
	fake := &fakeAgent{m: m}
	x := &runner{c: c, fake: fake, m: m, stdSeen: map[string]bool{}}
	g := newGen(r, m)

	// 0. regression inputs of the repaired defects (known_findings.txt, fixed: property=C12) run first
	for _, h := range []string{"00000000", "0000000123", "000000012300000000", "00000001200000000123"} {
		s, _ := hex.DecodeString(h)
		x.emit("regression", true, fake, s, false)
	}

	x.probeXCrypto(g)

	// 1. frames of length 1 (and 2) for every code 0..255, each also followed by a zero-length frame
	for code := 0; code < 256; code++ {
		x.emit("len1-every-code", true, fake, frame([]byte{byte(code)}), false)
		x.emit("len1-then-len0", true, fake, append(frame([]byte{byte(code)}), 0, 0, 0, 0), false)
		x.emit("len2-every-code", true, fake, append(frame([]byte{byte(code), byte(r.Intn(256))}), frame([]byte{byte(code)})...), false)
	}

	// 2. declared lengths up to 2^32-1 with no (or little) body: must be refused before allocating.
	//    Smallest first; stop growing once an allocation was seen (a missing bound must not take the harness down).
	allocSeen := false
	for _, l := range []uint32{maxFrame + 1, maxFrame + 2, maxFrame + 4096, 1 << 25, 1 << 26, 1 << 28, 1 << 30, 1 << 31, 1<<32 - 2, 1<<32 - 1} {
		if allocSeen && l > 1<<26 {
			break
		}
		for _, extra := range []int{0, 5} {
			var p [4]byte
			binary.BigEndian.PutUint32(p[:], l)
			s := append(p[:], g.bytesN(extra)...)
			if extra > 0 { // after a served request
				s = append(frame([]byte{yubiagent.AgentMessageListSlots}), s...)
			}
			o := x.emit("oversized-declared-length", true, fake, s, true)
			if o.alloc > 1<<20 {
				allocSeen = true
				g.capOversize = true
				c.Native(fmt.Sprintf("serving a prefix declaring %d bytes allocated %d bytes (frames above 16 MiB must be refused before allocation)", l, o.alloc),
					map[string]interface{}{"stream_hex": hex.EncodeToString(s)})
			} else {
				c.NativeCheck(1)
			}
		}
	}
	// boundary, Go side only (a 16 MiB stream is not shipped to Coq): exactly 16 MiB is served, one byte more is refused
	{
		body := make([]byte, maxFrame)
		body[0] = yubiagent.AgentMessageListSlots
		o := serveStream(fake, frame(body), 60*time.Second, false)
		if o.panicked || o.hung || o.err != nil || len(o.frames) != 1 {
			c.Native(fmt.Sprintf("a list-slots frame of exactly 16 MiB was not answered once (panic=%v err=%v frames=%d)", o.panicked, o.err, len(o.frames)), "16 MiB frame, code 32")
		} else {
			c.NativeCheck(1)
		}
		body = append(body, 0)
		o = serveStream(fake, frame(body), 60*time.Second, false)
		if o.panicked || o.hung || o.err == nil || len(o.frames) != 0 {
			c.Native(fmt.Sprintf("a frame of 16 MiB + 1 was not refused (panic=%v err=%v frames=%d)", o.panicked, o.err, len(o.frames)), "16 MiB + 1 frame, code 32")
		} else {
			c.NativeCheck(1)
		}
	}

	// 2b. large frames whose body stops short - at powers of two, at 1 MiB steps, one byte beside them: a request that
	// never arrived in full is neither answered nor passed over in silence, the connection ends with an error
	for _, declared := range []int{3 << 20, 16 << 20} {
		for _, cut := range []int{4096, 65536, 3 * 65536, 1<<20 - 1, 1 << 20, 1<<20 + 1, 2 << 20, 2<<20 + 1} {
			if cut >= declared {
				continue
			}
			hdr := []byte{byte(declared >> 24), byte(declared >> 16), byte(declared >> 8), byte(declared)}
			s := append(frame([]byte{yubiagent.AgentMessageListSlots}), hdr...)
			body := make([]byte, cut)
			body[0] = 32
			s = append(s, body...)
			o := serveStream(fake, s, 60*time.Second, false)
			in := map[string]interface{}{"stream": fmt.Sprintf("list-slots frame, then a frame declaring %d bytes whose body ends after %d bytes", declared, cut)}
			switch {
			case o.panicked || o.hung:
				c.Native("ServeAgent crashed or hung on a large frame cut short: "+strings.SplitN(o.panicMsg, "\n", 2)[0], in)
			case o.err == nil:
				c.Native(fmt.Sprintf("a frame declaring %d bytes that ended after %d bytes was passed over in silence (ServeAgent returned nil, %d response frames)", declared, cut, len(o.frames)), in)
			case len(o.frames) != 1:
				c.Native(fmt.Sprintf("%d response frames for one complete request followed by a frame cut short", len(o.frames)), in)
			default:
				c.NativeCheck(1)
			}
		}
	}

	x.realServerFrames()

	// 3. every class of valid frame alone, then truncated at every prefix position (short ones) or at random cuts
	for kind := 0; kind <= 8; kind++ {
		for i := 0; i < c.N(6, 60); i++ {
			b := g.validFrame(kind)
			f := frame(b)
			x.emit(fmt.Sprintf("valid-single-kind%d", kind), true, fake, f, false)
			cuts := []int{1, 2, 3, 4, 5, len(f) - 1}
			for j := 0; j < 2; j++ {
				cuts = append(cuts, 1+r.Intn(len(f)-1))
			}
			for _, cut := range cuts {
				if cut > 0 && cut < len(f) {
					x.emit("truncated", true, fake, f[:cut], false)
				}
			}
		}
	}

	// 4. random body for every code
	for code := 0; code < 256; code++ {
		for i := 0; i < c.N(1, 20); i++ {
			b := append([]byte{byte(code)}, g.bytesN(r.Intn(48))...)
			x.emit("random-body-every-code", true, fake, frame(b), false)
		}
	}

	// 5. concatenations of valid and invalid frames with every kind of tail
	for i := 0; i < c.N(420, 30000); i++ {
		var s []byte
		n := 1 + r.Intn(7)
		for j := 0; j < n; j++ {
			if r.Intn(9) == 0 {
				s = append(s, frame(g.brokenFrame())...)
			} else {
				s = append(s, frame(g.validFrame(r.Intn(9)))...)
			}
		}
		s = append(s, g.tail()...)
		x.emit("concatenation", true, fake, s, false)
	}

	// 6. arbitrary bytes (not frame-structured), small declared lengths made likely
	for i := 0; i < c.N(150, 8000); i++ {
		s := g.bytesN(r.Intn(40))
		for j := 0; j+3 < len(s); j += 4 + r.Intn(6) {
			if r.Intn(3) > 0 {
				s[j], s[j+1], s[j+2] = 0, 0, 0
				s[j+3] = byte(r.Intn(8))
			}
		}
		x.emit("arbitrary-bytes", true, fake, s, false)
	}

	// 7. the writer fails at the k-th write: no crash, the connection ends (Go-side oracle)
	for i := 0; i < c.N(60, 2000); i++ {
		var s []byte
		for j := 0; j < 1+r.Intn(5); j++ {
			s = append(s, frame(g.validFrame(r.Intn(9)))...)
		}
		conn := &failConn{in: bytes.NewReader(s), failAt: 1 + r.Intn(6)}
		if p, msg := core.Guard(func() { _ = yubiagent.ServeAgent(fake, conn) }); p {
			c.Native("ServeAgent panicked when the peer stopped reading: "+strings.SplitN(msg, "\n", 2)[0], map[string]interface{}{"stream_hex": hex.EncodeToString(s), "fail_at_write": conn.failAt})
		} else {
			c.NativeCheck(1)
		}
	}

	// 8. the concrete remote-mode server (Broadcast / Wait on the real type) over a real upstream agent
	runReal(c, x, g)
}

func runReal(c *core.Ctx, x *runner, g *gen) {
	r := c.Rng
	dir, err := os.MkdirTemp("", "verif-c12-")
	if err != nil {
		c.Native("harness: temp dir: "+err.Error(), nil)
		return
	}
	defer os.RemoveAll(dir)
	sock := filepath.Join(dir, "agent.sock")
	ln, err := net.Listen("unix", sock)
	if err != nil {
		c.Native("harness: listen: "+err.Error(), nil)
		return
	}
	defer ln.Close()
	keyring := agent.NewKeyring()
	go func() {
		for {
			conn, err := ln.Accept()
			if err != nil {
				return
			}
			go func() { defer conn.Close(); _ = agent.ServeAgent(keyring, conn) }()
		}
	}()
	srv, err := yubiagent.NewServer(sock, true)
	if err != nil {
		c.Native("yubiagent.NewServer(sock, true) failed against a standard agent: "+err.Error(), nil)
		return
	}
	defer srv.Close()

	for _, h := range []string{"00000000", "0000000123"} {
		s, _ := hex.DecodeString(h)
		x.emit("real-server-regression", false, srv, s, false)
	}
	for code := 0; code < 256; code++ {
		b := []byte{byte(code)}
		if r.Intn(2) == 0 {
			b = append(b, byte(40+r.Intn(216)))
		}
		x.emit("real-server-every-code", false, srv, append(frame(b), 0, 0, 0, 0), false)
	}
	for i := 0; i < c.N(150, 6000); i++ {
		var s []byte
		n := 1 + r.Intn(6)
		for j := 0; j < n; j++ {
			var b []byte
			if r.Intn(10) == 0 {
				b = g.brokenFrame()
			} else {
				b = g.validFrame(r.Intn(9))
			}
			if len(b) > 0 && b[0] == yubiagent.AgentMessageLock {
				b = []byte{yubiagent.AgentMessageRequestIdentities} // a locked upstream would change nothing C12 speaks about; keep runs independent
			}
			s = append(s, frame(noLowWait(b))...)
		}
		t := g.tail()
		if fs := splitFrames(t); len(fs) > 0 {
			t = nil
		}
		s = append(s, t...)
		x.emit("real-server-concatenation", false, srv, s, false)
	}

	// wait on a code < 40 is released by a request with that code on a second connection
	var shim *shimagent.Server
	if p, _ := core.Guard(func() {
		shim, _ = reflect.ValueOf(srv).Elem().FieldByName("ShimAgent").Interface().(*shimagent.Server)
	}); p || shim == nil {
		c.Note("could not reach the embedded *shimagent.Server; wait/broadcast choreography skipped")
		return
	}
	for _, code := range []byte{11, 13, 1, 31, 32, 35, 0, 39} {
		waiterStream := frame([]byte{yubiagent.AgentMessageWait, code})
		waiterStream = append(waiterStream, frame([]byte{yubiagent.AgentMessageListSlots})...)
		res := make(chan observation, 1)
		go func() { res <- serveStream(srv, waiterStream, 30*time.Second, false) }()
		deadline := time.Now().Add(10 * time.Second)
		for shim.VerifWaiters(code) < 1 && time.Now().Before(deadline) {
			time.Sleep(time.Millisecond)
		}
		if shim.VerifWaiters(code) < 1 {
			c.Native(fmt.Sprintf("wait request for code %d never blocked on the concrete server", code), hex.EncodeToString(waiterStream))
			<-res
			continue
		}
		select {
		case o := <-res:
			c.Native(fmt.Sprintf("wait request for code %d returned before any request with that code (frames=%d)", code, len(o.frames)), hex.EncodeToString(waiterStream))
			continue
		case <-time.After(20 * time.Millisecond):
		}
		rel := []byte{code}
		if code == yubiagent.AgentMessageWait {
			rel = []byte{code, 200}
		}
		o2 := serveStream(srv, frame(rel), 20*time.Second, false)
		o1 := <-res
		ok := !o1.hung && !o1.panicked && o1.err == nil && len(o1.frames) == 2 && string(o1.frames[0]) == "SUCCESS" && !o2.hung && !o2.panicked
		if code != yubiagent.AgentMessageAddHardCert { // a bare code 31 is a malformed add request: its connection ends with an error, after the broadcast
			ok = ok && len(o2.frames) == 1
		}
		if !ok {
			c.Native(fmt.Sprintf("wait(%d) / release choreography on the concrete server: waiter hung=%v panic=%v err=%v frames=%d; releaser frames=%d err=%v",
				code, o1.hung, o1.panicked, o1.err, len(o1.frames), len(o2.frames), o2.err), hex.EncodeToString(waiterStream))
		} else {
			c.NativeCheck(1)
		}
	}
}
