package core

import (
	"encoding/hex"
	"fmt"
	"strconv"
	"strings"
	"unicode/utf8"
)

// Gallina term printers. Text is a list of code points (type str), bytes a
// hex string decoded in Coq by [hx].

func GN(n uint64) string  { return strconv.FormatUint(n, 10) + "%N" }
func GNat(n int) string   { return strconv.Itoa(n) + "%nat" }
func GZ(n int64) string   { return "(" + strconv.FormatInt(n, 10) + ")%Z" }
func GBool(b bool) string { return strconv.FormatBool(b) }

// GStr renders valid UTF-8 text; callers must not pass invalid UTF-8.
func GStr(s string) string {
	if !utf8.ValidString(s) {
		panic("GStr: invalid UTF-8")
	}
	ascii := true
	for _, r := range s {
		if r < 32 || r >= 127 || r == '"' {
			ascii = false
			break
		}
	}
	if ascii {
		return `(tx "` + s + `")`
	}
	var parts []string
	for _, r := range s {
		parts = append(parts, strconv.Itoa(int(r)))
	}
	return "[" + strings.Join(parts, ";") + "]%N"
}

func GBytes(b []byte) string { return `(hx "` + hex.EncodeToString(b) + `")` }

func GList(items []string) string { return "[" + strings.Join(items, "; ") + "]" }

func GStrList(ss []string) string {
	items := make([]string, len(ss))
	for i, s := range ss {
		items[i] = GStr(s)
	}
	return GList(items)
}

func GOpt(present bool, v string) string {
	if !present {
		return "None"
	}
	return "(Some " + v + ")"
}

func GPair(a, b string) string { return "(" + a + ", " + b + ")" }

func GApp(f string, args ...string) string {
	return "(" + f + " " + strings.Join(args, " ") + ")"
}

var _ = fmt.Sprint
