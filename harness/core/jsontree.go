package core

import (
	"bytes"
	"encoding/json"
	"fmt"
	"regexp"
	"strings"
)

var intLit = regexp.MustCompile(`^-?(0|[1-9][0-9]*)$`)

// JSONTree returns the Gallina [json] term of a JSON text, obtained with
// json.Valid + Decoder.Token (independent of struct decoding; key order and
// duplicates are preserved). ok=false when the text is not valid JSON.
func JSONTree(text []byte) (term string, ok bool) {
	if !json.Valid(text) {
		return "", false
	}
	dec := json.NewDecoder(bytes.NewReader(text))
	dec.UseNumber()
	t, err := treeValue(dec)
	if err != nil {
		return "", false
	}
	return t, true
}

func treeValue(dec *json.Decoder) (string, error) {
	tok, err := dec.Token()
	if err != nil {
		return "", err
	}
	return treeFromTok(dec, tok)
}

func treeFromTok(dec *json.Decoder, tok json.Token) (string, error) {
	switch v := tok.(type) {
	case json.Delim:
		switch v {
		case '{':
			var items []string
			for dec.More() {
				kt, err := dec.Token()
				if err != nil {
					return "", err
				}
				k, ok := kt.(string)
				if !ok {
					return "", fmt.Errorf("non-string key")
				}
				val, err := treeValue(dec)
				if err != nil {
					return "", err
				}
				items = append(items, GPair(GStr(k), val))
			}
			if _, err := dec.Token(); err != nil {
				return "", err
			}
			return "(JObj " + GList(items) + ")", nil
		case '[':
			var items []string
			for dec.More() {
				val, err := treeValue(dec)
				if err != nil {
					return "", err
				}
				items = append(items, val)
			}
			if _, err := dec.Token(); err != nil {
				return "", err
			}
			return "(JArr " + GList(items) + ")", nil
		}
		return "", fmt.Errorf("unexpected delimiter %v", v)
	case string:
		return "(JStr " + GStr(v) + ")", nil
	case json.Number:
		return "(JNum " + GJnum(string(v)) + ")", nil
	case bool:
		return "(JBool " + GBool(v) + ")", nil
	case nil:
		return "JNull", nil
	}
	return "", fmt.Errorf("unexpected token %T", tok)
}

func GJnum(lit string) string {
	if intLit.MatchString(lit) {
		neg := strings.HasPrefix(lit, "-")
		mag := strings.TrimPrefix(lit, "-")
		return "(JInt " + GBool(neg) + " " + mag + "%N)"
	}
	return "(JOther " + GStr(lit) + ")"
}
