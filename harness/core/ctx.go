package core

import (
	"bytes"
	"context"
	"crypto/sha1"
	"encoding/json"
	"fmt"
	"math/rand"
	"os"
	"os/exec"
	"path/filepath"
	"runtime/debug"
	"sort"
	"strconv"
	"strings"
	"time"
)

// Driver is one property's correspondence driver.
type Driver struct {
	// Imports is the Coq import line(s) of the cases file, CheckFn the Gallina
	// function `case -> N`, CaseType the Gallina type of one case.
	Imports  string
	// Prelude: definitions shared by every shard (large constants).  Written once as casedefs.v (headed by the import
	// lines of Imports as they are when the run ends), compiled once by bin/check, and imported by every shard.
	Prelude string
	CheckFn  string
	CaseType string
	// ClassFn, if set, is a Gallina function `case -> N` whose histogram is
	// reported (which branch of the model a case reached).
	ClassFn string
	Run     func(c *Ctx)
	// ShardSize is the number of cases per generated Coq file.
	ShardSize int
}

type nativeViolation struct {
	Index int         `json:"index"`
	What  string      `json:"what"`
	Input interface{} `json:"input"`
}

type caseRec struct {
	Index   int
	Class   string
	Gallina string
	Human   interface{}
}

// Ctx collects the cases of one run.
type Ctx struct {
	Prop   string
	Seed   int64
	Tier   string
	Out    string
	Only   int
	Corpus string
	Rng    *rand.Rand
	drv    *Driver

	next         int
	cases        []caseRec
	classes      map[string]int
	distinct     map[string]struct{}
	native       []nativeViolation
	known        []string
	stats        map[string]int
	notes        []string
	nativeChecks int
	knownSeen    []map[string]interface{}
}

func newCtx(prop string, seed int64, tier, out string, only int, corpus string, d *Driver) *Ctx {
	return &Ctx{Prop: prop, Seed: seed, Tier: tier, Out: out, Only: only, Corpus: corpus,
		Rng: rand.New(rand.NewSource(seed)), drv: d,
		classes: map[string]int{}, distinct: map[string]struct{}{}, stats: map[string]int{}}
}

// Thorough reports whether the thorough tier was requested.
func (c *Ctx) Thorough() bool { return c.Tier == "thorough" }

// N picks the case count by tier.
func (c *Ctx) N(quick, thorough int) int {
	if c.Thorough() {
		return thorough
	}
	if c.Searching() && thorough > quick {
		if 4*quick < thorough {
			return 4 * quick
		}
		return thorough
	}
	return quick
}

// Searching: bin/check found a broken proof obligation and asks for a harder
// search for a concrete failing input (VERIF_SEARCH=1).
func (c *Ctx) Searching() bool { return os.Getenv("VERIF_SEARCH") != "" }

// NextIndex reserves the index of the next case (so a driver can skip the
// expensive implementation run when replaying a single index).
func (c *Ctx) NextIndex() int { return c.next }

// Skip reports whether the case with the next index should be skipped
// (replay of a single case); it consumes the index when skipping.
func (c *Ctx) Skip() bool {
	if c.Only >= 0 && c.next != c.Only {
		c.next++
		return true
	}
	return false
}

// Case records one case: its class label (input distribution), the Gallina
// term of the case (input + implementation observation) and a human-readable
// rendering for samples and replay files.
func (c *Ctx) Case(class, gallina string, human interface{}) int {
	idx := c.next
	c.next++
	if c.Only >= 0 && idx != c.Only {
		return idx
	}
	c.cases = append(c.cases, caseRec{idx, class, gallina, human})
	c.classes[class]++
	c.distinct[gallina] = struct{}{}
	return idx
}

// Native records a violation decided by a Go-side oracle (e.g. a panic).
func (c *Ctx) Native(what string, input interface{}) {
	c.native = append(c.native, nativeViolation{c.next, what, input})
}

// KnownFindingProbe records that a probe for a specific, already recorded
// finding (key as in /verif/known_findings.txt, "known: property=.. key=<key> ..")
// still reproduces. bin/check prints KNOWN-FINDING for listed keys and reports
// a VIOLATION for keys that are not listed.
func (c *Ctx) KnownFindingProbe(key, what string, input interface{}) {
	c.knownSeen = append(c.knownSeen, map[string]interface{}{"key": key, "what": what, "input": input})
}

// NativeCheck counts a Go-side oracle evaluation that passed.
func (c *Ctx) NativeCheck(n int) { c.nativeChecks += n }

// Stat bumps a named counter of the input distribution.
func (c *Ctx) Stat(k string)         { c.stats[k]++ }
func (c *Ctx) StatN(k string, n int) { c.stats[k] += n }
func (c *Ctx) Note(s string)         { c.notes = append(c.notes, s) }

// Guard runs f and converts a panic into (true, stack).
func Guard(f func()) (panicked bool, msg string) {
	defer func() {
		if r := recover(); r != nil {
			panicked = true
			msg = fmt.Sprintf("%v\n%s", r, debug.Stack())
		}
	}()
	f()
	return
}

func (c *Ctx) finish() error {
	if err := os.MkdirAll(c.Out, 0o755); err != nil {
		return err
	}
	old, _ := filepath.Glob(filepath.Join(c.Out, "cases_*.v"))
	for _, f := range old {
		os.Remove(f)
	}
	shard := c.drv.ShardSize
	if shard <= 0 {
		shard = 400
	}
	os.Remove(filepath.Join(c.Out, "casedefs.v"))
	if c.drv.Prelude != "" {
		if err := os.WriteFile(filepath.Join(c.Out, "casedefs.v"), []byte(c.drv.Imports+"\nLocal Open Scope N_scope.\n"+c.drv.Prelude+"\n"), 0o644); err != nil {
			return err
		}
	}
	var files []string
	for i, n := 0, 0; i < len(c.cases); i, n = i+shard, n+1 {
		j := i + shard
		if j > len(c.cases) {
			j = len(c.cases)
		}
		name := fmt.Sprintf("cases_%03d.v", n)
		var b strings.Builder
		fmt.Fprintf(&b, "(* written by /verif/harness: property %s seed %d tier %s *)\n", c.Prop, c.Seed, c.Tier)
		b.WriteString(c.drv.Imports + "\n")
		if c.drv.Prelude != "" {
			b.WriteString("Require Import casedefs.\n")
		}
		b.WriteString("Local Open Scope N_scope.\n")
		fmt.Fprintf(&b, "Definition cases : list (N * %s) := [\n", c.drv.CaseType)
		for k, cs := range c.cases[i:j] {
			sep := ";"
			if k == j-i-1 {
				sep = ""
			}
			fmt.Fprintf(&b, " (%d, %s)%s\n", cs.Index, cs.Gallina, sep)
		}
		b.WriteString("].\n")
		fmt.Fprintf(&b, "Definition bad := Eval vm_compute in run_checks %s cases.\n", c.drv.CheckFn)
		b.WriteString("Print bad.\n")
		if c.drv.ClassFn != "" {
			fmt.Fprintf(&b, "Definition cls := Eval vm_compute in map (fun c => %s (snd c)) cases.\nPrint cls.\n", c.drv.ClassFn)
		}
		if err := os.WriteFile(filepath.Join(c.Out, name), []byte(b.String()), 0o644); err != nil {
			return err
		}
		files = append(files, name)
	}
	// index -> human rendering, for samples and replay files
	humans := map[string]interface{}{}
	for _, cs := range c.cases {
		humans[fmt.Sprint(cs.Index)] = map[string]interface{}{"class": cs.Class, "case": cs.Human}
	}
	var sampleIdx []int
	seenClass := map[string]bool{}
	for _, cs := range c.cases {
		if !seenClass[cs.Class] && len(sampleIdx) < 12 {
			seenClass[cs.Class] = true
			sampleIdx = append(sampleIdx, cs.Index)
		}
	}
	sort.Ints(sampleIdx)
	meta := map[string]interface{}{
		"property": c.Prop, "seed": c.Seed, "tier": c.Tier,
		"evaluations": len(c.cases), "distinct": len(c.distinct),
		"classes": c.classes, "stats": c.stats, "files": files, "prelude": c.drv.Prelude != "",
		"native_violations": c.native, "known_findings_seen": c.knownSeen, "native_checks": c.nativeChecks,
		"notes": c.notes, "sample_indices": sampleIdx,
	}
	mb, _ := json.MarshalIndent(meta, "", " ")
	if err := os.WriteFile(filepath.Join(c.Out, "harness.json"), mb, 0o644); err != nil {
		return err
	}
	hb, _ := json.Marshal(humans)
	if err := os.WriteFile(filepath.Join(c.Out, "humans.json"), hb, 0o644); err != nil {
		return err
	}
	// index -> digest of the Gallina term, so that distinct cases can be counted per model branch
	var ib strings.Builder
	for _, cs := range c.cases {
		fmt.Fprintf(&ib, "%d %x\n", cs.Index, sha1.Sum([]byte(cs.Gallina)))
	}
	return os.WriteFile(filepath.Join(c.Out, "index.txt"), []byte(ib.String()), 0o644)
}

// ---- crash probing -------------------------------------------------------
//
// Some violations kill the whole process (a panic outside every recover, e.g.
// in a goroutine started by the implementation); core.Guard cannot turn those
// into observations.  A driver that wants them as observations first runs
// itself in a child process in "probe mode": the child executes the same
// deterministic case stream (same seed, tier, -only), prints PROBE-BEGIN n /
// PROBE-END n around each case and writes nothing; the parent learns which
// case indices crash the process and reports them instead of running them.

// Probing reports whether this process is the probe child.
func (c *Ctx) Probing() bool { return os.Getenv("VERIFHARNESS_PROBE") != "" }

// ProbeSkip reports whether the probe child must not execute this case (it
// already killed an earlier child).
func (c *Ctx) ProbeSkip(idx int) bool {
	for _, f := range strings.Split(os.Getenv("VERIFHARNESS_PROBE_SKIP"), ",") {
		if n, err := strconv.Atoi(f); err == nil && n == idx {
			return true
		}
	}
	return false
}

// ProbeMark prints a marker of the probe protocol.
func (c *Ctx) ProbeMark(what string, idx int) {
	fmt.Printf("PROBE-%s %d\n", what, idx)
	os.Stdout.Sync()
}

// Advance consumes the next case index without recording a case.
func (c *Ctx) Advance() { c.next++ }

// ProbeCrashes runs this binary in probe mode (restarting it after each crash)
// and returns, for every case index during which the child died, an excerpt
// of what the child wrote to stderr.
func (c *Ctx) ProbeCrashes() map[int]string {
	crashed := map[int]string{}
	var skip []string
	for round := 0; round < 25; round++ {
		ctx, cancel := context.WithTimeout(context.Background(), 15*time.Minute)
		cmd := exec.CommandContext(ctx, os.Args[0], os.Args[1:]...)
		cmd.Env = append(os.Environ(), "VERIFHARNESS_PROBE=1", "VERIFHARNESS_PROBE_SKIP="+strings.Join(skip, ","))
		var so, se bytes.Buffer
		cmd.Stdout, cmd.Stderr = &so, &se
		err := cmd.Run()
		cancel()
		if err == nil {
			return crashed
		}
		open := -1
		for _, l := range strings.Split(so.String(), "\n") {
			var n int
			if _, e := fmt.Sscanf(l, "PROBE-BEGIN %d", &n); e == nil {
				open = n
			} else if _, e := fmt.Sscanf(l, "PROBE-END %d", &n); e == nil && n == open {
				open = -1
			}
		}
		msg := se.String()
		if len(msg) > 3000 {
			msg = msg[:3000]
		}
		if open < 0 {
			// died outside any case: nothing more to learn from restarting
			crashed[-1] = fmt.Sprintf("probe child failed outside a case (%v): %s", err, msg)
			return crashed
		}
		crashed[open] = fmt.Sprintf("%v: %s", err, msg)
		skip = append(skip, strconv.Itoa(open))
	}
	return crashed
}
