package core

import (
	"flag"
	"fmt"
	"os"
)

// Main is the entry point of a property's harness binary.
func Main(prop string, d *Driver) {
	seed := flag.Int64("seed", 20260926, "PRNG seed")
	tier := flag.String("tier", "quick", "quick|thorough")
	out := flag.String("out", "", "output directory")
	only := flag.Int("only", -1, "replay: emit only the case with this index")
	corpus := flag.String("corpus", "", "corpus directory for this property")
	flag.String("prop", prop, "ignored (compatibility)")
	flag.Parse()
	if *out == "" {
		fmt.Fprintln(os.Stderr, "harness: need -out")
		os.Exit(2)
	}
	ctx := newCtx(prop, *seed, *tier, *out, *only, *corpus, d)
	d.Run(ctx)
	if ctx.Probing() {
		os.Exit(0)
	}
	if err := ctx.finish(); err != nil {
		fmt.Fprintf(os.Stderr, "harness: %v\n", err)
		os.Exit(2)
	}
}
