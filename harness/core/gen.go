package core

import (
	"math/rand"
	"strings"
)

// Shared generators. Every random choice comes from the one *rand.Rand of the
// run so a (seed, index) pair replays exactly.

var TextAtoms = []string{
	"alice", "bob", "host-1.example.com", "10.0.0.7", "::1", "2001:db8::1", "a b", "", "x",
	`q"uote`, `back\slash`, "<html>&amp;", "tab\there", "nl\nline", "ünï©ødé", "日本語", "😀", " ", "K", "ſ",
	"{", "}", "[]", ":", ",", "null", "true", "0", "-1", "SUCCESS", "=", "@", "a=b", "u@h",
	// text that LOOKS like an escape sequence or markup once encoded (backslash is a literal character here)
	"\\u003c", "\\u0026x", "a\\u003eb", "\\n", "\\\"", "\\\\", "\\", "&lt;", "%s", "%!d(string=x)", "\u2028", "\x7f",
}

func GenText(r *rand.Rand) string {
	switch r.Intn(10) {
	case 0:
		return ""
	case 1, 2, 3, 4:
		return TextAtoms[r.Intn(len(TextAtoms))]
	case 5, 6:
		return TextAtoms[r.Intn(len(TextAtoms))] + TextAtoms[r.Intn(len(TextAtoms))]
	default:
		n := r.Intn(12)
		var b strings.Builder
		for i := 0; i < n; i++ {
			switch r.Intn(8) {
			case 0:
				b.WriteRune(rune(0x80 + r.Intn(0x700)))
			case 1:
				b.WriteRune(rune(0x4e00 + r.Intn(0x100)))
			case 2:
				b.WriteRune(rune(1 + r.Intn(31)))
			default:
				b.WriteRune(rune(33 + r.Intn(94)))
			}
		}
		return b.String()
	}
}

// GenLongText: text whose length sits at a limit somebody might have in mind (255 / 256 bytes, 1 KiB, 4 KiB), ASCII or
// with a multi-byte character straddling the limit.
func GenLongText(r *rand.Rand) string {
	n := Pick(r, 254, 255, 256, 257, 300, 319, 512, 1023, 1024, 1025, 4096)
	var b strings.Builder
	multi := r.Intn(3) == 0
	for b.Len() < n {
		switch {
		case multi && b.Len()%97 == 96:
			b.WriteRune(rune(0x4e00 + r.Intn(0x100)))
		case multi && b.Len() >= n-2:
			b.WriteRune(rune(0x80 + r.Intn(0x700)))
		default:
			b.WriteByte(byte('a' + r.Intn(26)))
		}
	}
	return b.String()
}

func GenTextNonEmpty(r *rand.Rand) string {
	for {
		if s := GenText(r); s != "" {
			return s
		}
	}
}

func GenTextList(r *rand.Rand, max int) []string {
	n := r.Intn(max + 1)
	l := make([]string, n)
	for i := range l {
		l[i] = GenText(r)
	}
	return l
}

func Pick[T any](r *rand.Rand, xs ...T) T { return xs[r.Intn(len(xs))] }

// NegativeSerialDER returns a copy of an X.509 certificate whose serialNumber INTEGER has its sign bit set (a
// negative serial number, legal DER, issued by some CAs); lengths are unchanged, the signature is not recomputed.
func NegativeSerialDER(der []byte) ([]byte, bool) {
	// Certificate SEQUENCE -> TBSCertificate SEQUENCE -> [0] version (optional) -> serialNumber INTEGER
	hdr := func(b []byte) (tag byte, contentOff, contentLen int, ok bool) {
		if len(b) < 2 {
			return 0, 0, 0, false
		}
		tag = b[0]
		l := int(b[1])
		off := 2
		if l >= 0x80 {
			n := l & 0x7f
			if n == 0 || n > 4 || len(b) < 2+n {
				return 0, 0, 0, false
			}
			l = 0
			for i := 0; i < n; i++ {
				l = l<<8 | int(b[2+i])
			}
			off = 2 + n
		}
		if off+l > len(b) {
			return 0, 0, 0, false
		}
		return tag, off, l, true
	}
	out := append([]byte(nil), der...)
	t, o1, _, ok := hdr(out)
	if !ok || t != 0x30 {
		return nil, false
	}
	t, o2, _, ok := hdr(out[o1:])
	if !ok || t != 0x30 {
		return nil, false
	}
	p := o1 + o2
	t, o3, l3, ok := hdr(out[p:])
	if !ok {
		return nil, false
	}
	if t == 0xa0 { // version
		p += o3 + l3
		t, o3, l3, ok = hdr(out[p:])
		if !ok {
			return nil, false
		}
	}
	if t != 0x02 || l3 < 1 {
		return nil, false
	}
	c := out[p+o3 : p+o3+l3]
	if c[0] == 0 && l3 > 1 { // 00 xx with xx >= 0x80: make it 80 xx (still minimal)
		c[0] = 0x80
	} else {
		c[0] |= 0x80
		if c[0] == 0xff && l3 > 1 && c[1] >= 0x80 { // would not be minimal
			c[0] = 0xfe
		}
	}
	return out, true
}
