// C17 correspondence harness: the real crypki.NewSigner / (*Signer).Sign
// against real TLS gRPC SigningServers on 127.0.0.1..5 (one shared port), and
// the real backoff through crypki.VerifBackoff, emitted as Coq cases for
// Model/C17Check.v.
package main

import (
	"context"
	"crypto/tls"
	"fmt"
	"io"
	"log"
	"math"
	"math/big"
	"math/rand"
	"os"
	"regexp"
	"strings"
	"time"
	"unicode/utf8"

	"github.com/rs/zerolog"
	"github.com/theparanoids/crypki/proto"
	"github.com/theparanoids/ysshra/crypki"
	"golang.org/x/crypto/ssh"
	"google.golang.org/grpc/codes"
	"google.golang.org/grpc/grpclog"
	"google.golang.org/grpc/status"
	gproto "google.golang.org/protobuf/proto"

	"verifharness/casim"
	"verifharness/core"
)

func main() {
	core.Main("C17", &core.Driver{
		Imports:  "From Verif Require Import Lib.Base Model.Failover Model.C17Check.",
		CheckFn:  "C17Check.check",
		ClassFn:  "C17Check.classify",
		CaseType: "C17Check.case",
		Run:      run,
	})
}

// endpoint ids 1..5 are these addresses; 5 accepts and closes every connection.
var ips = []string{"127.0.0.1", "127.0.0.2", "127.0.0.3", "127.0.0.4", "127.0.0.5"}

type line struct {
	key     uint64 // 0 = junk
	comment string
	text    string
}

type beh struct {
	kind  string // "down" | "status" | "slow" | "reply"
	code  codes.Code
	lines []line
	eol   string
	last  bool // terminate the last line too
}

func (b beh) text() string {
	var parts []string
	for _, l := range b.lines {
		parts = append(parts, l.text)
	}
	s := strings.Join(parts, b.eol)
	if b.last && len(parts) > 0 {
		s += b.eol
	}
	return s
}

func (b beh) gallina() string {
	switch b.kind {
	case "down":
		return "BDown"
	case "status":
		return core.GApp("BStatus", core.GN(uint64(b.code)))
	case "slow":
		return core.GApp("BStatus", core.GN(uint64(codes.DeadlineExceeded)))
	}
	var ls []string
	for _, l := range b.lines {
		if l.key == 0 {
			ls = append(ls, "LJunk")
		} else {
			ls = append(ls, core.GApp("LKey", core.GN(l.key), core.GStr(l.comment)))
		}
	}
	return core.GApp("BReply", core.GList(ls))
}

func (b beh) human() string {
	switch b.kind {
	case "status":
		return "status " + b.code.String()
	case "reply":
		return fmt.Sprintf("reply %q", b64Re.ReplaceAllString(b.text(), "<b64>"))
	}
	return b.kind
}

var b64Re = regexp.MustCompile(`[A-Za-z0-9+/=]{40,}`)

var comments = []string{"", "", "user@host", "two words", "tab\tinside", "ünï©ødé", "日本語 コメント", "😀", "#hash", "a=b,c",
	`quo"te`, "trailing-dash-", "x", "ssh-ed25519 looks like a type", "1 2 3 4 5"}

var junk = []string{"", "   ", "\t", "# a comment line", "garbage", "ssh-rsa not-base64!! c", "ssh-ed25519 AAAA", "x y z",
	"ssh-ed25519-cert-v01@openssh.com AAAAB3NzaC1yc2E= truncated", `command="a b" nothing`, "#"}

// codes that the retry interceptor does not retry (and that are not OK)
var plainCodes = []codes.Code{codes.Canceled, codes.Unknown, codes.InvalidArgument, codes.DeadlineExceeded, codes.NotFound,
	codes.AlreadyExists, codes.PermissionDenied, codes.FailedPrecondition, codes.Aborted, codes.OutOfRange,
	codes.Unimplemented, codes.Internal, codes.DataLoss, codes.Unauthenticated, codes.ResourceExhausted, codes.Unavailable}

func genLine(r *rand.Rand, keys *casim.SSHKeys, wantKey bool) line {
	if !wantKey {
		return line{text: junk[r.Intn(len(junk))]}
	}
	id := uint64(1 + r.Intn(len(keys.Keys)))
	c := comments[r.Intn(len(comments))]
	t := keys.Line(id)
	if r.Intn(6) == 0 {
		t = core.Pick(r, `no-pty `, `command="echo hi",no-pty `, "restrict\t") + t
	}
	if c != "" {
		t += core.Pick(r, " ", "  ", "\t", " \t ") + c
	}
	t = core.Pick(r, "", "", " ", "\t") + t + core.Pick(r, "", "", " ", "  \t")
	return line{key: id, comment: c, text: t}
}

func genReply(r *rand.Rand, keys *casim.SSHKeys, nkeys int) beh {
	b := beh{kind: "reply", eol: core.Pick(r, "\n", "\n", "\n", "\r\n"), last: r.Intn(3) > 0}
	for i := 0; i < nkeys; i++ {
		for r.Intn(4) == 0 {
			b.lines = append(b.lines, genLine(r, keys, false))
		}
		b.lines = append(b.lines, genLine(r, keys, true))
	}
	for r.Intn(4) == 0 {
		b.lines = append(b.lines, genLine(r, keys, false))
	}
	return b
}

func genFailure(r *rand.Rand, keys *casim.SSHKeys, allowSlow bool) beh {
	switch n := r.Intn(20); {
	case n < 11:
		return beh{kind: "status", code: plainCodes[r.Intn(len(plainCodes))]}
	case n < 14:
		return genReply(r, keys, 0) // junk only, possibly nothing at all
	case n < 16:
		return beh{kind: "reply", eol: "\n"} // empty key material
	case n < 17 && allowSlow:
		return beh{kind: "slow"}
	default:
		return beh{kind: "status", code: codes.PermissionDenied}
	}
}

var codeRe = regexp.MustCompile(`code = (\w+)`)
var codeByName = func() map[string]uint64 {
	m := map[string]uint64{}
	for c := codes.Code(0); c <= 16; c++ {
		m[c.String()] = uint64(c)
	}
	return m
}()

// canonErr maps the error of Sign to the enum of C17Check.case.
func canonErr(err error) string {
	if err == nil {
		return "None"
	}
	s := err.Error()
	pair := func(a, b uint64) string { return "(Some " + core.GPair(core.GN(a), core.GN(b)) + ")" }
	switch {
	case strings.Contains(s, "no crypki endpoint is configured"):
		return pair(1, 0)
	case strings.Contains(s, "failed to parse user cert"):
		return pair(3, 0)
	case strings.Contains(s, "failed to sign user cert"), strings.Contains(s, "failed to establish connection"):
		if m := codeRe.FindStringSubmatch(s); m != nil {
			if c, ok := codeByName[m[1]]; ok {
				return pair(2, c)
			}
		}
		// an endpoint string gRPC cannot even dial (no status code in the text): a failed connection like any other
		if strings.Contains(s, "invalid target address") || strings.Contains(s, "failed to exit idle mode") || strings.Contains(s, "name resolver") {
			return pair(2, 14)
		}
		return pair(2, 99)
	}
	return pair(9, 0)
}

type env struct {
	c        *core.Ctx
	farm     *casim.Farm
	keys     *casim.SSHKeys
	dir      string
	certFile string
	keyFile  string
	caFile   string
	behs     map[string]beh
	tryTO    time.Duration
	ctxTO    time.Duration // deadline of the context handed to Sign (0 = one minute, as cmd/gensign)
	nsigners int
	bo       struct {
		base, max time.Duration
		mult, jit float64
	}
}

// oddNames: endpoint strings behind which no CA answers - an IPv6 literal without brackets (what "%s:%d" makes of it
// cannot be dialled), a URL, a name with a blank, an unresolvable name.  Endpoint ids len(ips)+1 ...
var oddNames = []string{"2001:db8::10", "https://ca.example.com", "ca example", "ca.invalid"}

func epName(ep int) string {
	if ep <= len(ips) {
		return ips[ep-1]
	}
	return oddNames[ep-len(ips)-1]
}

func (e *env) newSigner(eps []int, retries uint) (*crypki.Signer, error) {
	names := make([]string, len(eps))
	for i, ep := range eps {
		names[i] = epName(ep)
	}
	conf := crypki.SignerConfig{
		TLSClientKeyFile: e.keyFile, TLSClientCertFile: e.certFile, TLSCACertFiles: []string{e.caFile},
		CrypkiEndpoints: names, CrypkiPort: uint(e.farm.Port), Retries: retries, PerTryTimeout: e.tryTO,
	}
	// every other signer is built the way the application builds it: from the signer section of a configuration file
	e.nsigners++
	if e.nsigners%2 == 0 && len(names) > 0 {
		return casim.SignerViaConfig(e.dir, conf)
	}
	return crypki.NewSigner(conf)
}

func genRequest(r *rand.Rand) *proto.SSHCertificateSigningRequest {
	req := &proto.SSHCertificateSigningRequest{
		KeyMeta:    &proto.KeyMeta{Identifier: core.Pick(r, "ssh-user-key", "key-1", "")},
		Principals: core.GenTextList(r, core.Pick(r, 3, 3, 8, 16)),
		PublicKey:  "ssh-ed25519 AAAAC3NzaC1lZDI1NTE5AAAAIB" + core.GenText(r),
		Validity:   uint64(r.Intn(100000)),
		KeyId:      core.GenText(r),
	}
	if r.Intn(2) == 0 {
		req.Extensions = crypki.GetDefaultExtension()
	}
	if r.Intn(3) == 0 {
		req.CriticalOptions = map[string]string{"source-address": "10.0.0.0/8", core.GenText(r): core.GenText(r)}
	}
	if r.Intn(3) == 0 { // long principal lists, with spare capacity behind them (aliasing by append shows only then)
		n := 4 + r.Intn(6)
		ps := make([]string, 0, n+4)
		for i := 0; i < n; i++ {
			ps = append(ps, fmt.Sprintf("principal-%d-%s", i, core.GenText(r)))
		}
		req.Principals = ps
	}
	for i, p := range req.Principals { // protobuf strings must be valid UTF-8; the generators only make valid text
		req.Principals[i] = strings.ToValidUTF8(p, "?")
	}
	return req
}

const reqID = 7

// runSign runs one fail-over case on a fresh Signer and emits it.
func (e *env) runSign(class string, eps []int, behs map[int]beh, retries uint) {
	c := e.c
	req := genRequest(c.Rng) // drawn before Skip so that a replay of one index sees the same random stream
	if c.Skip() {
		return
	}
	signer, err := e.newSigner(eps, retries)
	if err != nil {
		c.Native("NewSigner failed on a valid configuration: "+err.Error(), fmt.Sprint(eps))
		return
	}
	e.signCall(class, signer, eps, behs, retries, req, nil)
}

// runHistory makes several consecutive Sign calls on ONE Signer while the
// endpoints' behaviour changes between the calls.  The property is per call
// (every call contacts the endpoints strictly in configured order, whatever
// happened before), so each call is emitted as a case of its own and judged by
// the same stateless oracle and model; the earlier calls are kept in the
// human rendering.  When a single index is replayed the whole history it
// belongs to is re-run (earlier calls are what may have left state behind).
func (e *env) runHistory(class string, eps []int, calls []map[int]beh) {
	c := e.c
	reqs := make([]*proto.SSHCertificateSigningRequest, len(calls))
	for i := range calls {
		reqs[i] = genRequest(c.Rng)
	}
	first := c.NextIndex()
	if c.Only >= 0 && (c.Only < first || c.Only >= first+len(calls)) {
		for range calls {
			c.Skip()
		}
		return
	}
	signer, err := e.newSigner(eps, 1)
	if err != nil {
		c.Native("NewSigner failed on a valid configuration: "+err.Error(), fmt.Sprint(eps))
		return
	}
	var before []string
	for i, behs := range calls {
		e.signCall(fmt.Sprintf("%s/call%d", class, i+1), signer, eps, behs, 1, reqs[i], before)
		vec := ""
		for _, ep := range eps {
			if b := behs[ep]; b.kind == "reply" && hasKey(b) {
				vec += fmt.Sprintf(" %d:ok", ep)
			} else {
				vec += fmt.Sprintf(" %d:FAIL(%s)", ep, b.kind)
			}
		}
		before = append(before, fmt.Sprintf("call %d:%s", i+1, vec))
	}
}

func hasKey(b beh) bool {
	for _, l := range b.lines {
		if l.key != 0 {
			return true
		}
	}
	return false
}

// signCall makes one Sign call on signer and emits it as a case.
func (e *env) signCall(class string, signer *crypki.Signer, eps []int, behs map[int]beh, retries uint,
	req *proto.SSHCertificateSigningRequest, earlier []string) {
	c := e.c
	e.behs = map[string]beh{}
	for ep, b := range behs {
		e.behs[epName(ep)] = b
	}
	e.farm.Take()
	sent := gproto.Clone(req).(*proto.SSHCertificateSigningRequest)
	var certs []ssh.PublicKey
	var comms []string
	var serr error
	to := 60 * time.Second
	if e.ctxTO > 0 {
		to = e.ctxTO
	}
	ctx, cancel := context.WithTimeout(context.Background(), to)
	panicked, msg := core.Guard(func() { certs, comms, serr = signer.Sign(ctx, req) })
	cancel()
	if panicked {
		c.Native("panic in Signer.Sign: "+msg, fmt.Sprint(eps))
		return
	}
	if !gproto.Equal(req, sent) {
		c.Native("Signer.Sign modified the caller's request", fmt.Sprint(eps))
		return
	}
	_, rpcs := e.farm.Take()
	var logItems, logHuman []string
	retried := 0
	for _, rec := range rpcs {
		if rec.Attempt > 0 { // a retry of the same call by the interceptor, not a new contact
			retried++
			continue
		}
		id := uint64(reqID)
		if !gproto.Equal(rec.Req, sent) {
			id = 0
		}
		ep := 0
		for i, ip := range ips {
			if ip == rec.IP {
				ep = i + 1
			}
		}
		logItems = append(logItems, core.GPair(core.GN(uint64(ep)), core.GN(id)))
		logHuman = append(logHuman, fmt.Sprintf("%d:%v", ep, id == reqID))
	}
	if retried > 0 {
		e.checkRetryGaps(rpcs)
	}
	var certIDs []string
	for _, k := range certs {
		certIDs = append(certIDs, core.GN(e.keys.ID(k)))
	}
	for _, cm := range comms {
		if !utf8.ValidString(cm) {
			c.Native("comment is not valid UTF-8 although the CA sent valid UTF-8", fmt.Sprint(eps))
			return
		}
	}
	var epItems, behItems []string
	behHuman := map[string]string{}
	for _, ep := range eps {
		epItems = append(epItems, core.GN(uint64(ep)))
	}
	for ep := 1; ep <= len(ips)+len(oddNames); ep++ {
		if b, ok := behs[ep]; ok {
			behItems = append(behItems, core.GPair(core.GN(uint64(ep)), b.gallina()))
			behHuman[fmt.Sprint(ep)] = b.human()
		}
	}
	c.Case(class,
		core.GApp("CSign", core.GList(epItems), core.GList(behItems), core.GN(reqID), core.GList(logItems),
			core.GList(certIDs), core.GStrList(comms), canonErr(serr)),
		map[string]interface{}{"endpoints": eps, "behaviour": behHuman, "retries": retries,
			"earlier_calls_on_this_signer":      earlier,
			"requests_seen(endpoint:unchanged)": logHuman, "certs": certIDs, "comments": comms, "err": fmt.Sprint(serr)})
}

// checkRetryGaps: the delay before a retry lies within [0, max*(1+jitter)] of
// the default configuration (plus scheduling slack), and not below the model's
// lower end for that attempt.
func (e *env) checkRetryGaps(rpcs []casim.RPCRec) {
	// the default back-off as it was when the run started: no signer created since may have moved it
	base, mult, max, jit := e.bo.base, e.bo.mult, e.bo.max, e.bo.jit
	for i := 1; i < len(rpcs); i++ {
		if rpcs[i].Attempt == 0 || rpcs[i].IP != rpcs[i-1].IP {
			continue
		}
		gap := rpcs[i].At.Sub(rpcs[i-1].At)
		hi := time.Duration(float64(max)*(1+jit)) + e.tryTO + 2*time.Second
		capped := math.Min(float64(base)*math.Pow(mult, float64(rpcs[i].Attempt)), float64(max))
		lo := time.Duration(capped*(1-jit)) - 50*time.Millisecond
		if gap < 0 || gap > hi {
			e.c.Native(fmt.Sprintf("retry delay %v outside [0, %v]", gap, hi), fmt.Sprint(rpcs[i].Attempt))
		} else if gap < lo {
			e.c.Native(fmt.Sprintf("retry delay %v below the configured back-off %v (is the default back-off still wired?)", gap, lo), fmt.Sprint(rpcs[i].Attempt))
		} else {
			e.c.NativeCheck(1)
		}
	}
}

func ratOf(f float64) (string, string) {
	r := new(big.Rat).SetFloat64(f)
	return "(" + r.Num().String() + ")%Z", r.Denom().String() + "%positive"
}

func (e *env) runBackoff(class string, base time.Duration, mult float64, max time.Duration, jit float64, attempt uint) {
	c := e.c
	if c.Skip() {
		return
	}
	var d time.Duration
	if p, msg := core.Guard(func() { d = crypki.VerifBackoff(base, mult, max, jit, attempt) }); p {
		c.Native("panic in Backoff: "+msg, fmt.Sprint(base, mult, max, jit, attempt))
		return
	}
	mn, md := ratOf(mult)
	jn, jd := ratOf(jit)
	c.Case(class,
		core.GApp("CBackoff", core.GZ(int64(base)), mn, md, core.GZ(int64(max)), jn, jd, core.GN(uint64(attempt)), core.GZ(int64(d))),
		map[string]interface{}{"base_ns": int64(base), "mult": mult, "max_ns": int64(max), "jitter": jit, "attempt": attempt, "observed_ns": int64(d)})
}

func run(c *core.Ctx) {
	log.SetOutput(io.Discard)
	zerolog.SetGlobalLevel(zerolog.Disabled)
	grpclog.SetLoggerV2(grpclog.NewLoggerV2(io.Discard, io.Discard, io.Discard))
	r := c.Rng

	dir, err := os.MkdirTemp("", "verif-c17-")
	if err != nil {
		panic(err)
	}
	defer os.RemoveAll(dir)
	ca, err := casim.NewCA("harness CA", 1)
	must(err)
	clientCA, err := casim.NewCA("harness client CA", 5)
	must(err)
	client, err := clientCA.Issue(casim.Leaf{CN: "ra", Client: true})
	must(err)
	keyPEM, err := casim.KeyPEM(client)
	must(err)
	e := &env{c: c, dir: dir, tryTO: time.Second}
	e.bo.base, e.bo.mult, e.bo.max, e.bo.jit = crypki.VerifDefaultBackoff()
	e.certFile, err = casim.WriteFile(dir, "client.crt", casim.CertPEM(client))
	must(err)
	e.keyFile, err = casim.WriteFile(dir, "client.key", keyPEM)
	must(err)
	e.caFile, err = casim.WriteFile(dir, "ca.crt", ca.PEM)
	must(err)
	e.keys, err = casim.NewSSHKeys(10, 3)
	must(err)
	e.farm, err = casim.NewFarm(ips)
	must(err)
	defer e.farm.Close()
	for i, ip := range ips[:4] {
		leaf, err := ca.Issue(casim.Leaf{CN: fmt.Sprintf("ca-%d", i+1), IPs: []string{ip}})
		must(err)
		e.farm.SetMode(ip, casim.Mode{TLS: casim.ServerTLS(leaf, tls.VersionTLS12, tls.VersionTLS13,
			tls.RequireAndVerifyClientCert, casim.Pool(clientCA))})
	}
	e.farm.SetHandler(func(ip string, req *proto.SSHCertificateSigningRequest, attempt int) casim.Answer {
		b, ok := e.behs[ip]
		if !ok {
			return casim.Answer{Err: status.Error(codes.Internal, "harness: endpoint not part of the case")}
		}
		switch b.kind {
		case "status":
			return casim.Answer{Err: status.Error(b.code, "harness says "+b.code.String())}
		case "slow":
			return casim.Answer{Key: e.keys.Line(1) + "\n", Delay: 3 * e.tryTO}
		case "reply":
			return casim.Answer{Key: b.text()}
		}
		return casim.Answer{Err: status.Error(codes.Internal, "harness: unexpected behaviour")}
	})

	// ---- (0) regression inputs of the two repaired defects, first
	// F7: an empty, non-nil endpoint list
	e.runSign("regression-empty-list", []int{}, map[int]beh{}, 1)
	// nil list: NewSigner must refuse it (validate:"required")
	if _, err := crypki.NewSigner(crypki.SignerConfig{TLSClientKeyFile: e.keyFile, TLSClientCertFile: e.certFile,
		TLSCACertFiles: []string{e.caFile}, CrypkiPort: uint(e.farm.Port)}); err == nil {
		c.Native("NewSigner accepted a configuration without endpoints", "CrypkiEndpoints: nil")
	} else {
		c.NativeCheck(1)
	}
	// F8: {0, 3.0, 15s, 0.2}.Backoff(1000), and neighbours
	for _, a := range []uint{1000, 647, 646, 1, 0, math.MaxUint32} {
		e.runBackoff("regression-zero-base", 0, 3.0, 15*time.Second, 0.2, a)
	}

	// ---- (0') histories on ONE signer: what an earlier call did must not change whom the next call
	// contacts first.  Fixed patterns first (F = the endpoint fails, S = it signs):
	down := beh{kind: "down"}
	fail := func() beh { return genFailure(r, e.keys, false) }
	okb := func() beh { return genReply(r, e.keys, 1+r.Intn(3)) }
	vecBeh := func(eps []int, pat string) map[int]beh {
		m := map[int]beh{}
		for i, ep := range eps {
			switch {
			case ep == 5:
				m[ep] = down
			case pat[i] == 'S':
				m[ep] = okb()
			default:
				m[ep] = fail()
			}
		}
		return m
	}
	history := func(class string, eps []int, pats ...string) {
		var calls []map[int]beh
		for _, p := range pats {
			calls = append(calls, vecBeh(eps, p))
		}
		e.runHistory(class, eps, calls)
	}
	history("history-recovered", []int{1, 2}, "FS", "SS") // endpoint 1 is back: it must be asked first again
	history("history-recovered", []int{3, 1, 4}, "FFS", "SSS", "SFS")
	history("history-after-all-fail", []int{2, 4}, "FF", "SS", "FF", "SS")
	history("history-after-all-fail", []int{4, 3, 2, 1}, "FFFF", "FSSS", "SSSS")
	history("history-last-then-first", []int{1, 2, 3, 4}, "FFFS", "FSSS", "SSSS")
	history("history-down-first", []int{5, 2, 3}, "FFS", "FSS", "FSF")
	history("history-same-twice", []int{2, 1}, "SS", "SS")

	// ---- (i) fail-over: every length 0..4 x every success/failure vector
	rounds := c.N(5, 120)
	slowBudget := c.N(3, 40)
	for round := 0; round < rounds; round++ {
		for L := 0; L <= 4; L++ {
			for vec := 0; vec < 1<<L; vec++ {
				perm := r.Perm(4)
				eps := make([]int, L)
				behs := map[int]beh{}
				for i := 0; i < L; i++ {
					ep := perm[i] + 1
					ok := vec&(1<<i) != 0
					switch {
					case !ok && r.Intn(8) == 0:
						ep = 5
						behs[ep] = down
					case ok:
						behs[ep] = genReply(r, e.keys, 1+r.Intn(4))
					default:
						b := genFailure(r, e.keys, slowBudget > 0)
						if b.kind == "slow" {
							slowBudget--
						}
						behs[ep] = b
					}
					eps[i] = ep
				}
				class := fmt.Sprintf("len%d", L)
				// sometimes the same endpoint is listed twice
				if L >= 2 && r.Intn(6) == 0 {
					eps[L-1] = eps[0]
					class += "-dup"
				}
				e.runSign(class, eps, behs, 1)
			}
		}
	}
	// ---- (i') random histories: 2..4 calls on one signer over 2..4 endpoints, a fresh outcome vector per call
	for i, n := 0, c.N(40, 800); i < n; i++ {
		L := 2 + r.Intn(3)
		perm := r.Perm(4)
		eps := make([]int, L)
		for j := range eps {
			eps[j] = perm[j] + 1
		}
		if r.Intn(8) == 0 {
			eps[r.Intn(L)] = 5
		}
		k := 2 + r.Intn(3)
		pats := make([]string, k)
		for j := range pats {
			b := make([]byte, L)
			for x := range b {
				b[x] = "FS"[r.Intn(2)]
			}
			if j > 0 && r.Intn(3) == 0 { // everybody healthy after trouble: the sharpest test
				b = []byte(strings.Repeat("S", L))
			}
			pats[j] = string(b)
		}
		history("history-random", eps, pats...)
	}

	// ---- (ii) every failure kind alone and before a success, every status code
	for _, code := range plainCodes {
		e.runSign("each-code", []int{2}, map[int]beh{2: {kind: "status", code: code}}, 1)
		e.runSign("each-code-then-ok", []int{3, 1}, map[int]beh{3: {kind: "status", code: code}, 1: genReply(r, e.keys, 1)}, 1)
	}
	for n := 0; n <= 4; n++ {
		e.runSign(fmt.Sprintf("reply-%d-keys", n), []int{4}, map[int]beh{4: genReply(r, e.keys, n)}, 1)
	}
	// a CA reply with a very long line (a comment of 64 KiB and more): still one certificate per key line, in order
	longLine := func(id uint64, n int) line {
		cm := strings.Repeat("c", n)
		return line{key: id, comment: cm, text: e.keys.Line(id) + " " + cm}
	}
	for _, n := range []int{70000} {
		short := func(id uint64) line { return line{key: id, comment: "k", text: e.keys.Line(id) + " k"} }
		e.runSign("reply-long-line", []int{4}, map[int]beh{4: {kind: "reply", eol: "\n", last: true, lines: []line{short(1), longLine(2, n), short(3)}}}, 1)
		e.runSign("reply-long-first-line", []int{1, 2}, map[int]beh{1: {kind: "reply", eol: "\n", last: true, lines: []line{longLine(2, n)}}, 2: genReply(r, e.keys, 1)}, 1)
	}
	e.runSign("deadline", []int{1, 2}, map[int]beh{1: {kind: "slow"}, 2: genReply(r, e.keys, 2)}, 1)
	e.runSign("deadline-all", []int{3}, map[int]beh{3: {kind: "slow"}}, 1)
	// the caller's deadline is tight: an unresponsive first endpoint uses up its per-try timeout (1 s), 1 s is
	// left for the healthy second one, which answers at once - it must still be contacted and its answer returned
	e.ctxTO = 2 * e.tryTO
	e.runSign("deadline-tight-slow-then-ok", []int{1, 2}, map[int]beh{1: {kind: "slow"}, 2: genReply(r, e.keys, 2)}, 1)
	e.runSign("deadline-tight-slow-then-ok", []int{4, 5, 2}, map[int]beh{4: {kind: "slow"}, 5: down, 2: genReply(r, e.keys, 1)}, 1)
	e.ctxTO = 0
	// endpoint strings that cannot be dialled at all: failed endpoints like any other
	for i := range oddNames {
		odd := len(ips) + 1 + i
		e.runSign("undialable-endpoint-then-ok", []int{odd, 4}, map[int]beh{odd: down, 4: genReply(r, e.keys, 1)}, 1)
		e.runSign("undialable-endpoint-alone", []int{odd}, map[int]beh{odd: down}, 1)
		e.runSign("failing-then-undialable-then-ok", []int{2, odd, 3}, map[int]beh{2: {kind: "status", code: codes.Internal}, odd: down, 3: genReply(r, e.keys, 2)}, 1)
	}
	e.runSign("down-then-ok", []int{5, 4}, map[int]beh{5: down, 4: genReply(r, e.keys, 1)}, 1)
	e.runSign("all-down", []int{5, 5}, map[int]beh{5: down}, 1)
	// ---- (ii') a context that is already done when Sign is entered (cancelled, or past its deadline): no endpoint can
	// answer, so the call must report an error - never an empty success (judged natively: the servers see nothing)
	for i, mk := range []func() (context.Context, context.CancelFunc){
		func() (context.Context, context.CancelFunc) {
			ctx, cancel := context.WithCancel(context.Background())
			cancel()
			return ctx, cancel
		},
		func() (context.Context, context.CancelFunc) {
			return context.WithDeadline(context.Background(), time.Now().Add(-time.Second))
		},
	} {
		for _, eps := range [][]int{{1}, {2, 3}, {4, 1, 2}} {
			signer, err := e.newSigner(eps, 1)
			if err != nil {
				c.Native("NewSigner failed on a valid configuration: "+err.Error(), fmt.Sprint(eps))
				continue
			}
			e.behs = map[string]beh{}
			for _, ep := range eps {
				e.behs[ips[ep-1]] = genReply(r, e.keys, 1)
			}
			// a live call first, then the done context on the same signer
			for k := 0; k < 2; k++ {
				ctx, cancel := context.WithTimeout(context.Background(), 30*time.Second)
				if k == 1 {
					cancel()
					ctx, cancel = mk()
				}
				var certs []ssh.PublicKey
				var comms []string
				var serr error
				panicked, msg := core.Guard(func() { certs, comms, serr = signer.Sign(ctx, genRequest(r)) })
				cancel()
				e.farm.Take()
				what := []string{"cancelled", "expired"}[i]
				switch {
				case panicked:
					c.Native("panic in Signer.Sign with a "+what+" context: "+msg, fmt.Sprint(eps))
				case serr == nil && len(certs) == 0:
					c.Native(fmt.Sprintf("Signer.Sign returned success with no certificate (call %d on this signer, context %s)", k+1, []string{"live", what}[k]),
						map[string]interface{}{"endpoints": eps, "context": []string{"live", what}[k], "comments": comms})
				case serr == nil && len(certs) != len(comms):
					c.Native("Signer.Sign returned certificates and comments of different lengths", fmt.Sprint(eps))
				default:
					c.NativeCheck(1)
				}
			}
		}
	}

	// another signer of the process, built from a configuration whose signer section carries back-off settings this
	// version of the code may not know (it then ignores them): whatever it is configured with is its own business - the
	// signers of the cases below keep the default back-off
	if _, err := casim.SignerViaConfigExtra(e.dir, crypki.SignerConfig{TLSClientKeyFile: e.keyFile, TLSClientCertFile: e.certFile,
		TLSCACertFiles: []string{e.caFile}, CrypkiEndpoints: []string{epName(5)}, CrypkiPort: uint(e.farm.Port), Retries: 5, PerTryTimeout: e.tryTO},
		map[string]interface{}{"backoff_base_delay": "30s", "backoff_max_delay": "40s", "backoff_multiplier": 1.0, "backoff_jitter": 0.0}); err != nil {
		c.Note("a signer configuration with unknown back-off keys was refused: " + err.Error())
	}
	// ---- (iii) retriable codes with the retry interceptor active: Retries = 2 means one retry
	// after DefaultConfig.Backoff(1) (about 6 s) - kept to very few cases.
	for i, n := 0, c.N(1, 4); i < n; i++ {
		code := core.Pick(r, codes.Unavailable, codes.ResourceExhausted)
		e.runSign("retry-retriable-code", []int{1, 2}, map[int]beh{1: {kind: "status", code: code}, 2: genReply(r, e.keys, 1)}, 2)
	}

	// ---- (iv) back-off values
	b0, m0, x0, j0 := crypki.VerifDefaultBackoff()
	attempts := []uint{}
	for a := uint(0); a <= 20; a++ {
		attempts = append(attempts, a)
	}
	attempts = append(attempts, 40, 63, 64, 645, 646, 647, 648, 1000, 1023, 1024, 1025, 65536, 1<<31, math.MaxUint32-1, math.MaxUint32)
	for _, a := range attempts {
		for k := 0; k < c.N(2, 6); k++ {
			e.runBackoff("default-config", b0, m0, x0, j0, a)
		}
	}
	bases := []time.Duration{0, 1, time.Millisecond, 2 * time.Second, -1 /* = max */}
	mults := []float64{1, 1.5, 2, 3, 10, 1e300}
	maxes := []time.Duration{15 * time.Second, time.Hour, 4e18}
	jits := []float64{0, 0.2, 0.5, 1}
	n := 0
	for _, mx := range maxes {
		for _, bs := range bases {
			if bs < 0 {
				bs = mx
			}
			for _, ml := range mults {
				for _, jt := range jits {
					n++
					if !c.Thorough() && n%9 != int(c.Seed%9) && !(bs == 0 && jt == 0.2 && (ml == 3 || ml == 1e300) || jt == 1 && ml == 1) {
						continue
					}
					for _, a := range attempts {
						if !c.Thorough() && a > 6 && a < 20 && a%4 != 0 {
							continue
						}
						e.runBackoff("config-grid", bs, ml, mx, jt, a)
					}
				}
			}
		}
	}
	// multipliers with long binary expansions only for small attempts (the exact power is a huge rational)
	for _, ml := range []float64{1.1, 1.0000001, math.Nextafter(1, 2), 2.5, math.Pi} {
		for a := uint(0); a <= 12; a++ {
			e.runBackoff("fine-multiplier", 100*time.Millisecond, ml, 20*time.Second, 0.3, a)
		}
	}
}

func must(err error) {
	if err != nil {
		panic(err)
	}
}
