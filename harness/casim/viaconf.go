package casim

// The signer as the application builds it: from the "signer" object of a gensign configuration file, through
// config.NewGensignConfig and crypki.NewSignerWithGensignConf (decoding by mapstructure, the duration hook, defaults).

import (
	"encoding/json"
	"fmt"
	"os"
	"path/filepath"
	"sync/atomic"

	"github.com/theparanoids/ysshra/config"
	"github.com/theparanoids/ysshra/crypki"
)

var confSeq uint64

// SignerViaConfig writes conf as the signer section of a configuration file under dir and builds the signer from it.
func SignerViaConfig(dir string, conf crypki.SignerConfig) (*crypki.Signer, error) {
	return SignerViaConfigExtra(dir, conf, nil)
}

// SignerViaConfigExtra: the same, with further keys in the signer section (keys this version of the code may not know).
func SignerViaConfigExtra(dir string, conf crypki.SignerConfig, extra map[string]interface{}) (*crypki.Signer, error) {
	m := map[string]interface{}{
		"tls_client_key_file":  conf.TLSClientKeyFile,
		"tls_client_cert_file": conf.TLSClientCertFile,
		"tls_ca_cert_files":    conf.TLSCACertFiles,
		"crypki_endpoints":     conf.CrypkiEndpoints,
		"crypki_port":          conf.CrypkiPort,
		"retries":              conf.Retries,
		"per_try_timeout":      conf.PerTryTimeout.String(),
	}
	for k, v := range extra {
		m[k] = v
	}
	doc := map[string]interface{}{"signer": m, "request_timeout": 60, "handlers": map[string]interface{}{}}
	b, err := json.MarshalIndent(doc, "", " ")
	if err != nil {
		return nil, err
	}
	path := filepath.Join(dir, fmt.Sprintf("gensign-signer-%d.json", atomic.AddUint64(&confSeq, 1)))
	if err := os.WriteFile(path, b, 0o600); err != nil {
		return nil, err
	}
	defer os.Remove(path)
	gc, err := config.NewGensignConfig(path)
	if err != nil {
		return nil, fmt.Errorf("config.NewGensignConfig: %w", err)
	}
	return crypki.NewSignerWithGensignConf(*gc)
}
