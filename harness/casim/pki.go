// Package casim is the harness' stand-in for the crypki CA: a small X.509 PKI
// (CAs, server and client leaves with chosen names and validity) and a farm of
// real TLS gRPC SigningServers on loopback addresses that share one port,
// with complete server-side observation (TCP connections, TLS handshake
// outcome, negotiated version, peer certificates, requests received).
// Shared by the C17 and C18 harnesses.
package casim

import (
	"crypto/ecdsa"
	"crypto/ed25519"
	"crypto/elliptic"
	"crypto/rand"
	"crypto/tls"
	"crypto/x509"
	"crypto/x509/pkix"
	"encoding/pem"
	"fmt"
	"math/big"
	"net"
	"os"
	"path/filepath"
	"time"

	"golang.org/x/crypto/ssh"
)

// CA is a harness certification authority.
type CA struct {
	Name string
	ID   uint64 // id used in the Coq cases
	Cert *x509.Certificate
	Key  *ecdsa.PrivateKey
	PEM  []byte
}

var serial int64 = 1000

func nextSerial() *big.Int { serial++; return big.NewInt(serial) }

// NewCA creates a self-signed CA certificate valid from a day ago for ten years.
func NewCA(name string, id uint64) (*CA, error) {
	return NewCAValid(name, id, time.Now().Add(-24*time.Hour), time.Now().Add(10*365*24*time.Hour))
}

// NewCAValid: a CA whose own certificate is valid from nb to na (an expired CA: a forgotten roll-over).
func NewCAValid(name string, id uint64, nb, na time.Time) (*CA, error) {
	key, err := ecdsa.GenerateKey(elliptic.P256(), rand.Reader)
	if err != nil {
		return nil, err
	}
	tmpl := &x509.Certificate{
		SerialNumber:          nextSerial(),
		Subject:               pkix.Name{CommonName: name, Organization: []string{"verif harness"}},
		NotBefore:             nb,
		NotAfter:              na,
		KeyUsage:              x509.KeyUsageCertSign | x509.KeyUsageCRLSign | x509.KeyUsageDigitalSignature,
		BasicConstraintsValid: true,
		IsCA:                  true,
	}
	der, err := x509.CreateCertificate(rand.Reader, tmpl, tmpl, &key.PublicKey, key)
	if err != nil {
		return nil, err
	}
	cert, err := x509.ParseCertificate(der)
	if err != nil {
		return nil, err
	}
	return &CA{Name: name, ID: id, Cert: cert, Key: key,
		PEM: pem.EncodeToMemory(&pem.Block{Type: "CERTIFICATE", Bytes: der})}, nil
}

// Leaf describes a certificate to issue.
type Leaf struct {
	CN        string
	IPs       []string
	DNS       []string
	NotBefore time.Time
	NotAfter  time.Time
	Client    bool // client-auth instead of server-auth usage
}

func (l Leaf) template() *x509.Certificate {
	nb, na := l.NotBefore, l.NotAfter
	if nb.IsZero() {
		nb = time.Now().Add(-time.Hour)
	}
	if na.IsZero() {
		na = time.Now().Add(30 * 24 * time.Hour)
	}
	t := &x509.Certificate{
		SerialNumber:          nextSerial(),
		Subject:               pkix.Name{CommonName: l.CN},
		NotBefore:             nb,
		NotAfter:              na,
		KeyUsage:              x509.KeyUsageDigitalSignature,
		BasicConstraintsValid: true,
		DNSNames:              l.DNS,
	}
	if l.Client {
		t.ExtKeyUsage = []x509.ExtKeyUsage{x509.ExtKeyUsageClientAuth}
	} else {
		t.ExtKeyUsage = []x509.ExtKeyUsage{x509.ExtKeyUsageServerAuth}
	}
	for _, ip := range l.IPs {
		t.IPAddresses = append(t.IPAddresses, net.ParseIP(ip))
	}
	return t
}

// Issue signs a leaf with the CA's key.
func (ca *CA) Issue(l Leaf) (tls.Certificate, error) {
	key, err := ecdsa.GenerateKey(elliptic.P256(), rand.Reader)
	if err != nil {
		return tls.Certificate{}, err
	}
	der, err := x509.CreateCertificate(rand.Reader, l.template(), ca.Cert, &key.PublicKey, ca.Key)
	if err != nil {
		return tls.Certificate{}, err
	}
	leaf, _ := x509.ParseCertificate(der)
	return tls.Certificate{Certificate: [][]byte{der}, PrivateKey: key, Leaf: leaf}, nil
}

// SelfSigned creates a leaf signed by its own key (not a CA).
func SelfSigned(l Leaf) (tls.Certificate, error) {
	key, err := ecdsa.GenerateKey(elliptic.P256(), rand.Reader)
	if err != nil {
		return tls.Certificate{}, err
	}
	t := l.template()
	der, err := x509.CreateCertificate(rand.Reader, t, t, &key.PublicKey, key)
	if err != nil {
		return tls.Certificate{}, err
	}
	leaf, _ := x509.ParseCertificate(der)
	return tls.Certificate{Certificate: [][]byte{der}, PrivateKey: key, Leaf: leaf}, nil
}

// CertPEM / KeyPEM render a tls.Certificate made by this package.
func CertPEM(c tls.Certificate) []byte {
	return pem.EncodeToMemory(&pem.Block{Type: "CERTIFICATE", Bytes: c.Certificate[0]})
}

func KeyPEM(c tls.Certificate) ([]byte, error) {
	der, err := x509.MarshalECPrivateKey(c.PrivateKey.(*ecdsa.PrivateKey))
	if err != nil {
		return nil, err
	}
	return pem.EncodeToMemory(&pem.Block{Type: "EC PRIVATE KEY", Bytes: der}), nil
}

// WriteFile writes data under dir and returns the path.
func WriteFile(dir, name string, data []byte) (string, error) {
	p := filepath.Join(dir, name)
	return p, os.WriteFile(p, data, 0o600)
}

// Pool returns a certificate pool holding the given CAs.
func Pool(cas ...*CA) *x509.CertPool {
	p := x509.NewCertPool()
	for _, ca := range cas {
		p.AddCert(ca.Cert)
	}
	return p
}

// ---------------------------------------------------------------- SSH material

// SSHKeys is a table of SSH public keys / certificates the fake CAs answer
// with; ID(blob) is the id used in the Coq cases (0 = unknown blob).
type SSHKeys struct {
	Keys []ssh.PublicKey
	ids  map[string]uint64
}

// NewSSHKeys makes nCerts user certificates and nPlain plain public keys.
func NewSSHKeys(nCerts, nPlain int) (*SSHKeys, error) {
	_, caPriv, err := ed25519.GenerateKey(rand.Reader)
	if err != nil {
		return nil, err
	}
	caSigner, err := ssh.NewSignerFromKey(caPriv)
	if err != nil {
		return nil, err
	}
	t := &SSHKeys{ids: map[string]uint64{}}
	for i := 0; i < nCerts+nPlain; i++ {
		pub, _, err := ed25519.GenerateKey(rand.Reader)
		if err != nil {
			return nil, err
		}
		sshPub, err := ssh.NewPublicKey(pub)
		if err != nil {
			return nil, err
		}
		var k ssh.PublicKey = sshPub
		if i < nCerts {
			// principals as the CA wrote them: several, not in lexical order (what comes back must be these bytes)
			prins := [][]string{{"user"}, {"zeta", "alice"}, {"b", "a", "c", "B", "a"}, nil}[i%4]
			crt := &ssh.Certificate{
				KeyId: fmt.Sprintf("harness-%d", i), CertType: ssh.UserCert, ValidPrincipals: prins,
				Key: sshPub, ValidAfter: uint64(time.Now().Unix()) - 60, ValidBefore: uint64(time.Now().Unix()) + 3600,
			}
			if err := crt.SignCert(rand.Reader, caSigner); err != nil {
				return nil, err
			}
			k = crt
		}
		t.Keys = append(t.Keys, k)
		t.ids[string(k.Marshal())] = uint64(i + 1)
	}
	return t, nil
}

// ID returns the table id of a key (1-based), 0 when it is not in the table.
func (t *SSHKeys) ID(k ssh.PublicKey) uint64 {
	if k == nil {
		return 0
	}
	return t.ids[string(k.Marshal())]
}

// Line renders key number id (1-based) as an authorized_keys line without
// line terminator and without comment.
func (t *SSHKeys) Line(id uint64) string {
	b := ssh.MarshalAuthorizedKey(t.Keys[id-1])
	return string(b[:len(b)-1])
}

// ServerTLS is a server-side configuration: the leaf, the protocol range, the
// client-authentication mode and the CAs client certificates are verified
// against. ALPN offers h2 (grpc-go clients insist on it).
func ServerTLS(leaf tls.Certificate, min, max uint16, auth tls.ClientAuthType, clientCAs *x509.CertPool) *tls.Config {
	return &tls.Config{
		Certificates: []tls.Certificate{leaf},
		MinVersion:   min,
		MaxVersion:   max,
		ClientAuth:   auth,
		ClientCAs:    clientCAs,
		NextProtos:   []string{"h2"},
	}
}
