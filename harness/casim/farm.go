package casim

import (
	"context"
	"crypto/tls"
	"errors"
	"fmt"
	"net"
	"strconv"
	"sync"
	"time"

	"github.com/theparanoids/crypki/proto"
	"google.golang.org/grpc"
	"google.golang.org/grpc/metadata"
	"google.golang.org/grpc/peer"
	"google.golang.org/grpc/status"
	gproto "google.golang.org/protobuf/proto"
)

// SentinelIP is the source address of the harness' barrier connections.
const SentinelIP = "127.0.0.77"

// Mode says how an address treats a new TCP connection.
type Mode struct {
	Down  bool        // accept and close at once
	Plain bool        // serve gRPC without TLS
	TLS   *tls.Config // otherwise: TLS handshake with this configuration
}

// ConnRec is one TCP connection seen by a server.
type ConnRec struct {
	Seq         int
	IP          string
	Remote      string
	Plain       bool
	Down        bool
	HandshakeOK bool
	Err         string
	Version     uint16
	ALPN        string
	PeerCerts   [][]byte // DER
}

// RPCRec is one PostUserSSHCertificate request seen by a server.
type RPCRec struct {
	Seq     int
	IP      string
	Remote  string
	Req     *proto.SSHCertificateSigningRequest
	Attempt int // value of the retry interceptor's attempt header (0 = first try)
	At      time.Time
}

// Answer is what a handler makes the RPC return.
type Answer struct {
	Key   string
	Err   error
	Delay time.Duration // sleep before answering (ends early when the caller gives up)
}

// Handler decides the answer to a request arriving at ip.
type Handler func(ip string, req *proto.SSHCertificateSigningRequest, attempt int) Answer

// Farm is a set of gRPC SigningServers on several loopback addresses with one shared port.
type Farm struct {
	Port int
	IPs  []string

	mu       sync.Mutex
	cond     *sync.Cond
	seq      int
	pending  int
	conns    []ConnRec
	rpcs     []RPCRec
	modes    map[string]Mode
	handler  Handler
	sentinel map[string]chan struct{}

	lns     []net.Listener
	servers []*grpc.Server
	closed  bool
}

// chanListener hands already-established connections to a grpc.Server.
type chanListener struct {
	ch   chan net.Conn
	addr net.Addr
	done chan struct{}
	once sync.Once
}

func (l *chanListener) Accept() (net.Conn, error) {
	select {
	case c := <-l.ch:
		return c, nil
	case <-l.done:
		return nil, errors.New("listener closed")
	}
}
func (l *chanListener) Close() error   { l.once.Do(func() { close(l.done) }); return nil }
func (l *chanListener) Addr() net.Addr { return l.addr }

type signingServer struct {
	proto.UnimplementedSigningServer
	farm *Farm
	ip   string
}

func (s *signingServer) PostUserSSHCertificate(ctx context.Context, req *proto.SSHCertificateSigningRequest) (*proto.SSHKey, error) {
	f := s.farm
	remote := ""
	if p, ok := peer.FromContext(ctx); ok && p.Addr != nil {
		remote = p.Addr.String()
	}
	attempt := 0
	if md, ok := metadata.FromIncomingContext(ctx); ok {
		if v := md.Get("x-retry-attempty"); len(v) > 0 {
			attempt, _ = strconv.Atoi(v[0])
		}
	}
	f.mu.Lock()
	f.seq++
	f.rpcs = append(f.rpcs, RPCRec{Seq: f.seq, IP: s.ip, Remote: remote,
		Req: gproto.Clone(req).(*proto.SSHCertificateSigningRequest), Attempt: attempt, At: time.Now()})
	h := f.handler
	f.mu.Unlock()
	if h == nil {
		return nil, errors.New("casim: no handler")
	}
	a := h(s.ip, req, attempt)
	if a.Delay > 0 {
		select {
		case <-time.After(a.Delay):
		case <-ctx.Done():
			// the caller gave up: never turn that into an answer that could race with its timer
			return nil, status.FromContextError(ctx.Err()).Err()
		}
	}
	if a.Err != nil {
		return nil, a.Err
	}
	return &proto.SSHKey{Key: a.Key}, nil
}

// listenAll finds one port that is free on every address: the first address
// picks a free port, the others must accept the same number; retried on collision.
func listenAll(ips []string) (int, []net.Listener, error) {
	var lastErr error
	for try := 0; try < 50; try++ {
		first, err := net.Listen("tcp4", net.JoinHostPort(ips[0], "0"))
		if err != nil {
			return 0, nil, err
		}
		port := first.Addr().(*net.TCPAddr).Port
		lns := []net.Listener{first}
		ok := true
		for _, ip := range ips[1:] {
			l, err := net.Listen("tcp4", net.JoinHostPort(ip, strconv.Itoa(port)))
			if err != nil {
				lastErr, ok = err, false
				break
			}
			lns = append(lns, l)
		}
		if ok {
			return port, lns, nil
		}
		for _, l := range lns {
			l.Close()
		}
	}
	return 0, nil, fmt.Errorf("no common free port on %v: %v", ips, lastErr)
}

// NewFarm starts a server on every address. All addresses start in Down mode.
func NewFarm(ips []string) (*Farm, error) {
	port, lns, err := listenAll(ips)
	if err != nil {
		return nil, err
	}
	f := &Farm{Port: port, IPs: ips, modes: map[string]Mode{}, sentinel: map[string]chan struct{}{}, lns: lns}
	f.cond = sync.NewCond(&f.mu)
	for i, ip := range ips {
		f.modes[ip] = Mode{Down: true}
		f.sentinel[ip] = make(chan struct{}, 16)
		cl := &chanListener{ch: make(chan net.Conn), addr: lns[i].Addr(), done: make(chan struct{})}
		gs := grpc.NewServer()
		proto.RegisterSigningServer(gs, &signingServer{farm: f, ip: ip})
		f.servers = append(f.servers, gs)
		go gs.Serve(cl)
		go f.acceptLoop(ip, lns[i], cl)
	}
	return f, nil
}

func (f *Farm) acceptLoop(ip string, ln net.Listener, cl *chanListener) {
	for {
		raw, err := ln.Accept()
		if err != nil {
			return
		}
		if host, _, _ := net.SplitHostPort(raw.RemoteAddr().String()); host == SentinelIP {
			raw.Close()
			f.sentinel[ip] <- struct{}{}
			continue
		}
		f.mu.Lock()
		mode := f.modes[ip]
		f.pending++
		f.seq++
		seq := f.seq
		f.mu.Unlock()
		go func() {
			rec := ConnRec{Seq: seq, IP: ip, Remote: raw.RemoteAddr().String()}
			var deliver net.Conn
			switch {
			case mode.Down:
				rec.Down = true
				raw.Close()
			case mode.Plain:
				rec.Plain = true
				deliver = raw
			default:
				tc := tls.Server(raw, mode.TLS)
				raw.SetDeadline(time.Now().Add(5 * time.Second))
				err := tc.Handshake()
				raw.SetDeadline(time.Time{})
				if err != nil {
					rec.Err = err.Error()
					raw.Close()
				} else {
					st := tc.ConnectionState()
					rec.HandshakeOK = true
					rec.Version = st.Version
					rec.ALPN = st.NegotiatedProtocol
					for _, c := range st.PeerCertificates {
						rec.PeerCerts = append(rec.PeerCerts, c.Raw)
					}
					deliver = tc
				}
			}
			f.mu.Lock()
			f.conns = append(f.conns, rec)
			f.pending--
			f.cond.Broadcast()
			f.mu.Unlock()
			if deliver != nil {
				select {
				case cl.ch <- deliver:
				case <-cl.done:
					deliver.Close()
				}
			}
		}()
	}
}

// SetMode sets how ip treats connections from now on.
func (f *Farm) SetMode(ip string, m Mode) {
	f.mu.Lock()
	f.modes[ip] = m
	f.mu.Unlock()
}

// SetHandler installs the RPC handler.
func (f *Farm) SetHandler(h Handler) {
	f.mu.Lock()
	f.handler = h
	f.mu.Unlock()
}

// Quiesce returns when every connection made to the farm so far has been
// accepted and its handshake has ended: a sentinel connection is queued behind
// them on every listener (accept queues are FIFO), then the handshake
// goroutines are awaited.
func (f *Farm) Quiesce() error {
	d := net.Dialer{LocalAddr: &net.TCPAddr{IP: net.ParseIP(SentinelIP)}, Timeout: 5 * time.Second}
	for _, ip := range f.IPs {
		c, err := d.Dial("tcp4", net.JoinHostPort(ip, strconv.Itoa(f.Port)))
		if err != nil {
			return fmt.Errorf("sentinel to %s: %v", ip, err)
		}
		select {
		case <-f.sentinel[ip]:
		case <-time.After(10 * time.Second):
			c.Close()
			return fmt.Errorf("sentinel to %s was not accepted", ip)
		}
		c.Close()
	}
	deadline := time.Now().Add(15 * time.Second)
	f.mu.Lock()
	defer f.mu.Unlock()
	for f.pending > 0 {
		if time.Now().After(deadline) {
			return fmt.Errorf("%d handshake(s) still pending", f.pending)
		}
		// cond.Wait has no timeout: poll coarsely
		f.mu.Unlock()
		time.Sleep(200 * time.Microsecond)
		f.mu.Lock()
	}
	return nil
}

// Take returns and clears what was recorded so far (ordered by sequence number).
func (f *Farm) Take() ([]ConnRec, []RPCRec) {
	f.mu.Lock()
	defer f.mu.Unlock()
	c, r := f.conns, f.rpcs
	f.conns, f.rpcs = nil, nil
	return c, r
}

// Close stops every server and listener.
func (f *Farm) Close() {
	f.mu.Lock()
	if f.closed {
		f.mu.Unlock()
		return
	}
	f.closed = true
	f.mu.Unlock()
	for _, l := range f.lns {
		l.Close()
	}
	for _, s := range f.servers {
		s.Stop()
	}
}
