// Package shimsim drives the real shimagent.Server against a scripted
// underlying ssh-agent served on a unix socket behind a frame-level fault
// proxy, and renders histories (operations + observations) as Gallina cases of
// Model/ShimCheck.v. It is shared by the C07-C10 harnesses.
package shimsim

import (
	"crypto/ecdsa"
	"crypto/ed25519"
	"crypto/elliptic"
	"crypto/rand"
	"crypto/rsa"
	"crypto/sha256"
	"encoding/json"
	"fmt"
	"io"
	"math/big"
	mrand "math/rand"
	"strings"
	"sync"

	"golang.org/x/crypto/ssh"

	"github.com/theparanoids/ysshra/keyid"
	"verifharness/core"
)

// KeyEnt is a plain key pair of the pool.
type KeyEnt struct {
	ID     uint64
	Name   string
	Priv   interface{}
	Signer ssh.Signer
	Pub    ssh.PublicKey
	Blob   []byte
	// SK: a security-key (FIDO) key pair: an agent client cannot add it (its private half is a handle on a token),
	// it appears in the underlying agent by other means
	SK bool
}

// SKSigner signs like a FIDO token behind ssh-agent does (the sk-* signature formats): the signature covers
// sha256(application) || flags || counter || sha256(data); flags and counter travel in the signature's tail.
type SKSigner struct {
	pub ssh.PublicKey
	app string
	ed  ed25519.PrivateKey
	ec  *ecdsa.PrivateKey
	mu  sync.Mutex
	ctr uint32
}

func (s *SKSigner) PublicKey() ssh.PublicKey { return s.pub }

func (s *SKSigner) Sign(_ io.Reader, data []byte) (*ssh.Signature, error) {
	s.mu.Lock()
	s.ctr++
	ctr := s.ctr
	s.mu.Unlock()
	ad := sha256.Sum256([]byte(s.app))
	dd := sha256.Sum256(data)
	tail := []byte{1, byte(ctr >> 24), byte(ctr >> 16), byte(ctr >> 8), byte(ctr)}
	msg := append(append(append([]byte{}, ad[:]...), tail...), dd[:]...)
	if s.ed != nil {
		return &ssh.Signature{Format: s.pub.Type(), Blob: ed25519.Sign(s.ed, msg), Rest: tail}, nil
	}
	h := sha256.Sum256(msg)
	r, sv, err := ecdsa.Sign(rand.Reader, s.ec, h[:])
	if err != nil {
		return nil, err
	}
	return &ssh.Signature{Format: s.pub.Type(), Blob: ssh.Marshal(struct{ R, S *big.Int }{r, sv}), Rest: tail}, nil
}

// CertEnt is a certificate issued by the harness CA over a pool key.
type CertEnt struct {
	ID      uint64
	Cert    *ssh.Certificate
	Blob    []byte
	Key     *KeyEnt
	VA, VB  uint64
	KidText string
	Window  string
	KidKind string
}

// Pool holds the key pairs, the CA and the blob-id table of one harness run.
// Blob ids are the abstract blobs of the Coq model: the id of a blob is a
// function of its bytes (and sha256 of the bytes maps back to the id).
type Pool struct {
	mu     sync.Mutex
	Keys   []*KeyEnt
	CA     ssh.Signer
	byBlob map[string]uint64
	byHash map[[32]byte]uint64
	blobs  map[uint64][]byte
	nextID uint64
}

// NewPool generates the key pool: 1 RSA-2048, ECDSA P-256 (x2), P-384,
// Ed25519 (x2) and an Ed25519 CA. Key material comes from crypto/rand: the
// Gallina cases only contain blob ids, so replays do not depend on it.
func NewPool() (*Pool, error) {
	p := &Pool{byBlob: map[string]uint64{}, byHash: map[[32]byte]uint64{}, blobs: map[uint64][]byte{}, nextID: 100}
	add := func(name string, priv interface{}) error {
		s, err := ssh.NewSignerFromKey(priv)
		if err != nil {
			return err
		}
		k := &KeyEnt{ID: uint64(len(p.Keys) + 1), Name: name, Priv: priv, Signer: s, Pub: s.PublicKey(), Blob: s.PublicKey().Marshal()}
		p.Keys = append(p.Keys, k)
		p.register(k.ID, k.Blob)
		return nil
	}
	rk, err := rsa.GenerateKey(rand.Reader, 2048)
	if err != nil {
		return nil, err
	}
	if err := add("rsa2048", rk); err != nil {
		return nil, err
	}
	for _, c := range []struct {
		n string
		c elliptic.Curve
	}{{"p256a", elliptic.P256()}, {"p384", elliptic.P384()}, {"p256b", elliptic.P256()}} {
		ek, err := ecdsa.GenerateKey(c.c, rand.Reader)
		if err != nil {
			return nil, err
		}
		if err := add(c.n, ek); err != nil {
			return nil, err
		}
	}
	for _, n := range []string{"ed25519a", "ed25519b"} {
		_, ed, err := ed25519.GenerateKey(rand.Reader)
		if err != nil {
			return nil, err
		}
		if err := add(n, ed); err != nil {
			return nil, err
		}
	}
	// two security-key pairs (their certificates use the sk-*-cert-v01 wire formats)
	addSK := func(name string, wire []byte, s *SKSigner) error {
		pk, err := ssh.ParsePublicKey(wire)
		if err != nil {
			return err
		}
		s.pub, s.app = pk, "ssh:"
		k := &KeyEnt{ID: uint64(len(p.Keys) + 1), Name: name, Priv: s, Signer: s, Pub: pk, Blob: pk.Marshal(), SK: true}
		p.Keys = append(p.Keys, k)
		p.register(k.ID, k.Blob)
		return nil
	}
	skPub, skPriv, err := ed25519.GenerateKey(rand.Reader)
	if err != nil {
		return nil, err
	}
	if err := addSK("sk-ed25519", ssh.Marshal(struct {
		T   string
		K   []byte
		App string
	}{"sk-ssh-ed25519@openssh.com", skPub, "ssh:"}), &SKSigner{ed: skPriv}); err != nil {
		return nil, err
	}
	skEC, err := ecdsa.GenerateKey(elliptic.P256(), rand.Reader)
	if err != nil {
		return nil, err
	}
	if err := addSK("sk-ecdsa", ssh.Marshal(struct {
		T, C string
		K    []byte
		App  string
	}{"sk-ecdsa-sha2-nistp256@openssh.com", "nistp256", elliptic.Marshal(elliptic.P256(), skEC.X, skEC.Y), "ssh:"}), &SKSigner{ec: skEC}); err != nil {
		return nil, err
	}
	_, caKey, err := ed25519.GenerateKey(rand.Reader)
	if err != nil {
		return nil, err
	}
	p.CA, err = ssh.NewSignerFromKey(caKey)
	return p, err
}

func (p *Pool) register(id uint64, blob []byte) {
	p.mu.Lock()
	defer p.mu.Unlock()
	p.byBlob[string(blob)] = id
	p.byHash[sha256.Sum256(blob)] = id
	p.blobs[id] = blob
}

// IDOfBlob returns the id of a blob (0 = unknown bytes).
func (p *Pool) IDOfBlob(b []byte) uint64 {
	p.mu.Lock()
	defer p.mu.Unlock()
	return p.byBlob[string(b)]
}

// IDOfHash returns the id of the blob with this sha256 (0 = unknown).
func (p *Pool) IDOfHash(h [32]byte) uint64 { p.mu.Lock(); defer p.mu.Unlock(); return p.byHash[h] }

func (p *Pool) Key(id uint64) *KeyEnt {
	if id >= 1 && int(id) <= len(p.Keys) {
		return p.Keys[id-1]
	}
	return nil
}

// ReserveID hands out the next certificate blob id (plan time, deterministic).
func (p *Pool) ReserveID() uint64 {
	p.mu.Lock()
	defer p.mu.Unlock()
	id := p.nextID
	p.nextID++
	return id
}

// NewCert issues a certificate over key k with the given validity fields and
// KeyId text.
func (p *Pool) NewCert(id uint64, k *KeyEnt, va, vb uint64, kid, window, kidKind string) (*CertEnt, error) {
	// fields no shim rule mentions vary with the id: host certificates (cmd/gen-hostcert issues them with YSSHCA
	// KeyIds), the unset type, no principals, critical options
	ct, prins, perms := uint32(ssh.UserCert), []string{"user"}, ssh.Permissions{Extensions: map[string]string{"permit-pty": ""}}
	switch {
	case id%5 == 3:
		ct, prins, perms = ssh.HostCert, []string{"host.example.com"}, ssh.Permissions{}
	case id%7 == 4:
		ct = 0
	case id%11 == 6:
		prins, perms = nil, ssh.Permissions{CriticalOptions: map[string]string{"force-command": "true"}}
	}
	c := &ssh.Certificate{
		Key: k.Pub, Serial: id, CertType: ct, KeyId: kid,
		ValidPrincipals: prins, ValidAfter: va, ValidBefore: vb,
		Permissions: perms,
	}
	if err := c.SignCert(rand.Reader, p.CA); err != nil {
		return nil, err
	}
	// what travels and what the shim stores is the parsed form of the bytes
	blob := c.Marshal()
	pk, err := ssh.ParsePublicKey(blob)
	if err != nil {
		return nil, err
	}
	ce := &CertEnt{ID: id, Cert: pk.(*ssh.Certificate), Blob: blob, Key: k, VA: va, VB: vb, KidText: kid, Window: window, KidKind: kidKind}
	p.register(id, blob)
	return ce, nil
}

// GInfo renders the certificate table entry of the Coq case.
func (c *CertEnt) GInfo() string {
	tree, ok := core.JSONTree([]byte(c.KidText))
	return core.GPair(core.GN(c.ID), core.GApp("mkCI", core.GN(c.Key.ID), core.GN(c.VA), core.GN(c.VB), core.GOpt(ok, tree)))
}

// ---------------------------------------------------------------- KeyIds

// GenKeyID produces a KeyId text: valid YSSHCA KeyIDs of every kind, near
// misses, and free text. kind is a label for the input-class histogram.
func GenKeyID(r *mrand.Rand) (text, kind string) {
	base := func() *keyid.KeyID {
		// the optional usage member is set in half of the KeyIds, transaction ids are lower- or upper-case hex
		return &keyid.KeyID{Principals: []string{"user"}, TransID: fmt.Sprintf(core.Pick(r, "t%x", "%08x", "%08X"), r.Intn(1<<20)), ReqUser: "user", ReqIP: "10.0.0.7", ReqHost: "host-1.example.com",
			TouchPolicy: keyid.AlwaysTouch, Version: keyid.DefaultVersion, Usage: keyid.Usage(r.Intn(2))}
	}
	raw := func(k *keyid.KeyID) string { b, _ := json.Marshal(k); return string(b) }
	marshal := func(k *keyid.KeyID) string {
		var s string
		var err error
		if p, _ := core.Guard(func() { s, err = k.Marshal() }); p || err != nil {
			// the encoder under test refuses a KeyID the format allows (or crashes): the text is still what a CA writes
			return raw(k)
		}
		return s
	}
	switch r.Intn(20) {
	case 18: // near miss: a complete YSSHCA object followed by something else (a second document, text, a stray bracket)
		return marshal(base()) + core.Pick(r, "x", " x", "{}", marshal(base()), "\n# renewed 2026-09", ",", "]", " null", "\x00"), "near-trailing-data"
	case 19: // a YSSHCA object surrounded by white space is still one
		k := base()
		k.TouchPolicy = keyid.NeverTouch
		return core.Pick(r, "", " ", "\n") + marshal(k) + core.Pick(r, " ", "\n", "\t \r\n"), "ysshca-whitespace-around"
	case 16, 17: // near miss: a required field is missing but its quoted NAME still occurs in the text (as a value, a principal, a nested key)
		var m map[string]json.RawMessage
		json.Unmarshal([]byte(marshal(base())), &m)
		fields := []string{"transID", "reqUser", "reqIP", "reqHost", "isFirefighter", "isHWKey", "isHeadless", "isNonce", "touchPolicy", "ver"}
		f := fields[r.Intn(len(fields))]
		delete(m, f)
		q, _ := json.Marshal(f)
		switch r.Intn(3) {
		case 0:
			if f == "reqUser" {
				m["reqHost"] = q
			} else {
				m["reqUser"] = q
			}
		case 1:
			m["prins"] = json.RawMessage("[" + string(q) + "]")
		default:
			m["extra"] = json.RawMessage("{" + string(q) + ":1}")
		}
		b, _ := json.Marshal(m)
		return string(b), "near-missing-field-name-elsewhere"
	case 0:
		k := base()
		return marshal(k), "ysshca-touch"
	case 1:
		k := base()
		k.IsHWKey, k.TouchPolicy = true, keyid.CachedTouch
		return marshal(k), "ysshca-hw"
	case 2:
		k := base()
		k.IsFirefighter, k.IsHWKey = true, true
		return marshal(k), "ysshca-firefighter"
	case 3:
		k := base()
		k.IsHeadless, k.TouchPolicy, k.Usage = true, keyid.NeverTouch, keyid.SSHOnlyUsage
		return marshal(k), "ysshca-headless"
	case 4:
		k := base()
		k.IsNonce, k.TouchPolicy = true, keyid.NeverTouch
		return marshal(k), "ysshca-nonce"
	case 5:
		k := base()
		k.TouchPolicy, k.Principals = keyid.NeverTouch, nil
		return marshal(k), "ysshca-nil-prins"
	case 6: // near miss: one required field missing
		var m map[string]json.RawMessage
		json.Unmarshal([]byte(marshal(base())), &m)
		fields := []string{"prins", "transID", "reqUser", "reqIP", "reqHost", "isFirefighter", "isHWKey", "isHeadless", "isNonce", "touchPolicy", "ver"}
		delete(m, fields[r.Intn(len(fields))])
		b, _ := json.Marshal(m)
		return string(b), "near-missing-field"
	case 7: // near miss: unsupported version
		k := base()
		k.Version = core.Pick[uint16](r, 2, 0, 3)
		return raw(k), "near-version"
	case 8: // near miss: inconsistent flags
		k := base()
		switch r.Intn(3) {
		case 0:
			k.IsHeadless, k.IsHWKey, k.TouchPolicy = true, true, keyid.NeverTouch
		case 1:
			k.IsNonce, k.IsFirefighter, k.TouchPolicy = true, true, keyid.NeverTouch
		default:
			k.IsHeadless, k.TouchPolicy = true, keyid.AlwaysTouch
		}
		return raw(k), "near-inconsistent"
	case 9: // near miss: field renamed in case only (still decodes: case-insensitive match, but the required-key check is exact)
		s := strings.Replace(marshal(base()), `"transID"`, `"transid"`, 1)
		return s, "near-case"
	case 10: // wrong type for one field
		s := strings.Replace(marshal(base()), `"ver":1`, `"ver":"1"`, 1)
		return s, "near-type"
	case 11:
		return core.Pick(r, "null", "{}", "[]", "1", `"x"`, `{"ver":1}`), "json-other"
	case 12, 13:
		return core.Pick(r, "alice@example.com", "", "user-key 2024", "{not json", "ünï©ødé"), "free-text"
	default:
		k := base()
		k.TouchPolicy = keyid.TouchPolicy(r.Intn(4))
		return marshal(k), "ysshca-touch"
	}
}
