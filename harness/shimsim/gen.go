package shimsim

import (
	"bytes"
	"fmt"
	"golang.org/x/crypto/ssh"
	mrand "math/rand"
	"sort"
	"sync"
	"time"

	"verifharness/core"
)

// CertSpec is a certificate to mint when the history starts (validity windows
// are relative to that moment).
type CertSpec struct {
	ID      uint64
	KeyID   uint64
	Window  string
	KidText string
	KidKind string
}

// Windows: every validity-window class the properties speak about.
var Windows = []string{"current", "current", "current", "past", "future", "zero", "epoch-forever", "forever", "inverted", "vb-2^63", "va-2^63", "va-forever", "one-second-ago", "soon", "just-expired"}

func windowAt(kind string, t uint64) (va, vb uint64) {
	const forever = ^uint64(0)
	switch kind {
	case "current":
		return t - 3600, t + 3600
	case "past":
		return t - 7200, t - 3600
	case "one-second-ago":
		return t - 7200, t - 40
	case "future":
		return t + 3600, t + 7200
	case "zero":
		return 0, 0
	case "epoch-forever":
		return 0, forever
	case "forever":
		return t - 3600, forever
	case "inverted":
		return t + 3600, t - 3600
	case "vb-2^63":
		return t - 3600, 1 << 63
	case "va-2^63":
		return 1 << 63, forever
	case "va-forever":
		return forever, forever
	case "soon": // not valid yet: becomes valid half a minute from now
		return t + 30, t + 7200
	case "just-expired": // expired twenty seconds ago (one-second-ago is forty)
		return t - 7200, t - 20
	case "lapse": // valid now, lapses two seconds from now
		return t - 3600, t + 2
	case "dawn": // becomes valid three seconds from now
		return t + 3, t + 3600
	}
	panic("unknown window " + kind)
}

// Plan is one history to run: the agent's initial identities, the mode, the
// certificates to mint, faults during construction and the operations.
type Plan struct {
	Class     string
	NoUp      bool
	Initial   []uint64
	Certs     []CertSpec
	CtorFault map[int]Fault
	BadAddr   bool
	// Comp: Option.PubKeyComp of the shim: 0 default, 1 ascending by encoding, 2 descending
	Comp int
	Ops  []*Op
	Data map[uint64][]byte
}

// Cfg steers the history generator.
type Cfg struct {
	Weights  map[OpKind]int
	MinOps   int
	MaxOps   int
	FaultPct int            // percentage of agent-touching operations that get a fault
	FaultOps map[OpKind]int // per-kind override of FaultPct
	Lapse    bool           // include lapsing / dawning certificates and sleep across the edge
	NoUp     *bool
	Windows  []string
	YSSHCA   int // percentage of certificates forced to carry a valid YSSHCA KeyID
	Locky    bool
}

var malformedBodies = [][]byte{{}, {99}, {12, 0}, {14, 0, 0}, {12, 0, 0, 0, 1}, {6, 1}}

// GenFault draws a fault of the model's alphabet.
func GenFault(r *mrand.Rand) Fault {
	f := Fault{Exec: r.Intn(3) == 0, Kind: core.Pick(r, FFail, FFail, FMalformed, FMalformed, FOversize, FWrongType, FWrongType, FClose)}
	if f.Kind == FMalformed {
		f.Body = malformedBodies[r.Intn(len(malformedBodies)-1)]
	}
	return f
}

// passphrases: equal ones, different ones, and ones that differ only in a way a "normalising" comparison would
// ignore (trailing line ends, surrounding blanks, case, a trailing NUL, a prefix)
var passphrases = [][]byte{[]byte("pw"), []byte("pw"), {}, []byte("other"), []byte("pw2"), {0, 255, 10},
	[]byte("pw\n"), []byte("pw\r\n"), []byte("\n"), []byte(" pw"), []byte("pw "), []byte("PW"), {'p', 'w', 0}, []byte("p")}

// nearPass: a passphrase that differs from p only by line ends, blanks, case, a NUL or one byte at the end.
func nearPass(r *mrand.Rand, p []byte) []byte {
	q := append([]byte(nil), p...)
	switch r.Intn(8) {
	case 0:
		return append(q, '\n')
	case 1:
		return append(q, '\r', '\n')
	case 2:
		return bytes.TrimRight(q, "\r\n ")
	case 3:
		return append(q, 0)
	case 4:
		return append([]byte{' '}, q...)
	case 5:
		return bytes.ToUpper(q)
	case 6:
		if len(q) > 0 {
			return q[:len(q)-1]
		}
		return []byte{0}
	}
	return append(q, ' ')
}

// GenPlan draws one history.
func GenPlan(r *mrand.Rand, pool *Pool, cfg *Cfg, class string) *Plan {
	p := &Plan{Class: class, Data: map[uint64][]byte{}}
	p.Comp = core.Pick(r, 0, 0, 1, 2)
	if cfg.NoUp != nil {
		p.NoUp = *cfg.NoUp
	} else {
		p.NoUp = r.Intn(2) == 0
	}
	nk := len(pool.Keys)
	// certificates of the history
	windows := cfg.Windows
	if windows == nil {
		windows = Windows
	}
	ncert := 3 + r.Intn(7)
	for i := 0; i < ncert; i++ {
		cs := CertSpec{ID: pool.ReserveID(), KeyID: uint64(1 + r.Intn(nk)), Window: windows[r.Intn(len(windows))]}
		if i > 0 && r.Intn(3) == 0 { // several certificates over the same key
			cs.KeyID = p.Certs[r.Intn(len(p.Certs))].KeyID
		}
		for {
			cs.KidText, cs.KidKind = GenKeyID(r)
			if r.Intn(100) >= cfg.YSSHCA || cs.KidKind[:3] == "yss" {
				break
			}
		}
		if cfg.Lapse && i < 2 {
			cs.Window = core.Pick(r, "lapse", "lapse", "dawn")
		}
		p.Certs = append(p.Certs, cs)
	}
	certIDs := func() []uint64 {
		var l []uint64
		for _, c := range p.Certs {
			l = append(l, c.ID)
		}
		return l
	}()
	keyOf := map[uint64]uint64{}
	for _, c := range p.Certs {
		keyOf[c.ID] = c.KeyID
	}
	// predicted stores (ignoring time and faults), used only to aim operations
	var agentSet, memSet []uint64
	has := func(l []uint64, x uint64) bool {
		for _, y := range l {
			if y == x {
				return true
			}
		}
		return false
	}
	del := func(l []uint64, x uint64) []uint64 {
		var o []uint64
		for _, y := range l {
			if y != x {
				o = append(o, y)
			}
		}
		return o
	}
	// initial identities: some plain keys, some certificates with their key
	for k := 1; k <= nk; k++ {
		if r.Intn(2) == 0 {
			agentSet = append(agentSet, uint64(k))
		}
	}
	for _, c := range certIDs {
		if r.Intn(4) == 0 {
			agentSet = append(agentSet, c)
		}
	}
	r.Shuffle(len(agentSet), func(i, j int) { agentSet[i], agentSet[j] = agentSet[j], agentSet[i] })
	if r.Intn(12) == 0 {
		agentSet = nil
	}
	p.Initial = append([]uint64(nil), agentSet...)

	anyBlob := func() uint64 {
		if r.Intn(3) == 0 {
			return uint64(1 + r.Intn(nk))
		}
		return certIDs[r.Intn(len(certIDs))]
	}
	pick := func(l []uint64) uint64 {
		if len(l) == 0 || r.Intn(6) == 0 {
			return anyBlob()
		}
		return l[r.Intn(len(l))]
	}
	var kinds []OpKind
	for k, w := range cfg.Weights {
		for i := 0; i < w; i++ {
			kinds = append(kinds, k)
		}
	}
	sort.Slice(kinds, func(i, j int) bool { return kinds[i] < kinds[j] })
	n := cfg.MinOps + r.Intn(cfg.MaxOps-cfg.MinOps+1)
	lockedWith := []byte(nil)
	isLocked := false
	slept := false
	nextData, nextRaw := uint64(1), uint64(1)
	for i := 0; i < n; i++ {
		k := kinds[r.Intn(len(kinds))]
		op := &Op{Kind: k}
		switch k {
		case OpSign:
			switch r.Intn(5) {
			case 0, 1:
				op.Blob = pick(memSet)
			case 2, 3:
				op.Blob = pick(agentSet)
			default:
				op.Blob = anyBlob()
			}
			op.DataID = nextData
			nextData++
			d := make([]byte, 1+r.Intn(64))
			r.Read(d)
			p.Data[op.DataID] = d
			op.Flags = core.Pick[uint32](r, 0, 0, 0, 2, 4)
		case OpAdd:
			op.Blob = anyBlob()
			if !isLocked && !has(agentSet, op.Blob) {
				agentSet = append(agentSet, op.Blob)
			}
		case OpDirectAdd:
			op.Blob = anyBlob()
			if !isLocked && !has(agentSet, op.Blob) {
				agentSet = append(agentSet, op.Blob)
			}
		case OpAddHard:
			switch r.Intn(8) {
			case 0: // a plain key: not a certificate
				op.Blob = uint64(1 + r.Intn(nk))
			case 1:
				op.Blob = pick(memSet) // again
			default:
				// prefer certificates whose key the agent holds
				var cand []uint64
				for _, c := range certIDs {
					if has(agentSet, keyOf[c]) {
						cand = append(cand, c)
					}
				}
				if len(cand) > 0 && r.Intn(5) > 0 {
					op.Blob = cand[r.Intn(len(cand))]
				} else {
					op.Blob = certIDs[r.Intn(len(certIDs))]
				}
			}
			if !isLocked && op.Blob >= 100 && has(agentSet, keyOf[op.Blob]) && !has(memSet, op.Blob) {
				memSet = append(memSet, op.Blob)
			}
		case OpRemove:
			if r.Intn(2) == 0 {
				op.Blob = pick(memSet)
			} else {
				op.Blob = pick(agentSet)
			}
			if !isLocked {
				agentSet, memSet = del(agentSet, op.Blob), del(memSet, op.Blob)
			}
		case OpDirectRemove:
			op.Blob = pick(agentSet)
			if r.Intn(3) == 0 && len(memSet) > 0 { // orphan a hardware certificate
				op.Blob = keyOf[memSet[r.Intn(len(memSet))]]
			}
			if !isLocked {
				agentSet = del(agentSet, op.Blob)
			}
		case OpRemoveAll:
			if !isLocked {
				agentSet, memSet = nil, nil
			}
		case OpLock:
			op.Pass = passphrases[r.Intn(len(passphrases))]
			if !isLocked {
				isLocked, lockedWith = true, op.Pass
			}
		case OpUnlock:
			op.Pass = passphrases[r.Intn(len(passphrases))]
			if isLocked && r.Intn(3) > 0 {
				op.Pass = lockedWith
				if r.Intn(4) == 0 { // almost the right passphrase
					op.Pass = nearPass(r, lockedWith)
				}
			}
			if isLocked && string(op.Pass) == string(lockedWith) {
				isLocked = false
			}
		case OpForward:
			op.RawID = nextRaw
			nextRaw++
			l := core.Pick(r, 0, 1, 2, 5, 64, 300, 4096, 65535, 65536)
			if r.Intn(3) == 0 {
				l = r.Intn(65537)
			}
			op.RawBody = make([]byte, l)
			r.Read(op.RawBody)
			if l > 0 {
				op.RawBody[0] |= 0x80
				if l >= 8 && r.Intn(3) == 0 { // the requests real clients send raw: smartcard add / remove / constrained add, extension
					op.RawBody[0] = core.Pick[byte](r, 20, 21, 26, 27, 21, 20)
				}
			}
			op.RawRep = make([]byte, core.Pick(r, 0, 1, 1, 9, 100, 5000, 65536))
			r.Read(op.RawRep)
		case OpClose:
			if i < n-3 && r.Intn(3) > 0 { // mostly near the end
				op.Kind = OpList
			}
		}
		pct := cfg.FaultPct
		if v, ok := cfg.FaultOps[op.Kind]; ok {
			pct = v
		}
		if pct > 0 && r.Intn(100) < pct {
			switch op.Kind {
			case OpDirectAdd, OpDirectRemove, OpClose:
			default:
				op.Faults = map[int]Fault{core.Pick(r, 0, 0, 0, 1, 1, 2, 3): GenFault(r)}
			}
		}
		p.Ops = append(p.Ops, op)
		if cfg.Lapse && !slept && i >= n/2 {
			p.Ops = append(p.Ops, &Op{Kind: OpSleep, SleepMs: 4200})
			slept = true
		}
	}
	return p
}

// Result of running a plan.
type Result struct {
	NoUp  bool
	Plan  *Plan
	Sim   *Sim
	Obs0  Obs
	Steps []*StepObs
	Certs []*CertEnt
	Err   error
}

// Mint issues the plan's certificates, validity windows relative to now.
func (p *Plan) Mint(pool *Pool) ([]*CertEnt, error) {
	// a security-key identity cannot be added by an agent client: it appears in the underlying agent directly
	for _, op := range p.Ops {
		if op.Kind != OpAdd {
			continue
		}
		kid := op.Blob
		for _, cs := range p.Certs {
			if cs.ID == op.Blob {
				kid = cs.KeyID
			}
		}
		if k := pool.Key(kid); k != nil && k.SK {
			op.Kind = OpDirectAdd
		}
	}
	var out []*CertEnt
	t := uint64(time.Now().Unix())
	for _, cs := range p.Certs {
		va, vb := windowAt(cs.Window, t)
		ce, err := pool.NewCert(cs.ID, pool.Key(cs.KeyID), va, vb, cs.KidText, cs.Window, cs.KidKind)
		if err != nil {
			return nil, err
		}
		out = append(out, ce)
	}
	return out, nil
}

// Run executes a plan against a fresh scripted agent, proxy and shim.
func (p *Plan) Run(pool *Pool) *Result {
	certs, err := p.Mint(pool)
	if err != nil {
		return &Result{Plan: p, Err: err}
	}
	return p.RunWith(pool, certs, p.NoUp)
}

// RunWith executes the plan with already minted certificates in the given mode.
func (p *Plan) RunWith(pool *Pool, certs []*CertEnt, noup bool) *Result {
	res := &Result{Plan: p, Certs: certs, NoUp: noup}
	var comp func(ssh.PublicKey, ssh.PublicKey) bool
	switch p.Comp {
	case 1:
		comp = CompLess
	case 2:
		comp = CompGreater
	}
	sim, err := NewSimComp(pool, noup, p.Initial, p.CtorFault, res.Certs, comp)
	if err != nil {
		res.Err = err
		return res
	}
	res.Sim = sim
	defer sim.Stop()
	sim.Data = p.Data
	res.Obs0 = sim.Observe()
	if !sim.Built {
		return res
	}
	for _, op := range p.Ops {
		before := len(sim.Bad)
		st := sim.Do(op)
		if st != nil {
			res.Steps = append(res.Steps, st)
		}
		if len(sim.Bad) > before && st == nil && op.Kind != OpSleep {
			break // a panic: the history ends here
		}
	}
	// after the history (nothing of this is part of it): the signer objects Signers() hands out now are used the way
	// an ssh client uses them - Sign, and SignWithAlgorithm with each algorithm the key supports
	faultFree := len(p.CtorFault) == 0
	for _, op := range p.Ops {
		faultFree = faultFree && len(op.Faults) == 0 && op.Kind != OpClose
	}
	if faultFree && len(sim.Bad) == 0 && !sim.TimeAmbiguous {
		sim.ProbeSigners()
	}
	return res
}

// RunAll executes plans on a small worker pool and returns the results in plan
// order.
func RunAll(pool *Pool, plans []*Plan, workers int) []*Result {
	out := make([]*Result, len(plans))
	var wg sync.WaitGroup
	ch := make(chan int)
	for w := 0; w < workers; w++ {
		wg.Add(1)
		go func() {
			defer wg.Done()
			for i := range ch {
				out[i] = plans[i].Run(pool)
			}
		}()
	}
	for i := range plans {
		ch <- i
	}
	close(ch)
	wg.Wait()
	return out
}

func (r *Result) gTable() string {
	var items []string
	for _, c := range r.Certs {
		items = append(items, c.GInfo())
	}
	return core.GList(items)
}

func (r *Result) gSteps() string {
	items := make([]string, len(r.Steps))
	for i, s := range r.Steps {
		items[i] = s.Gallina()
	}
	return core.GList(items)
}

// Human renders the history for samples and replay files.
func (r *Result) Human() map[string]interface{} {
	var certs, steps []string
	for _, c := range r.Certs {
		certs = append(certs, fmt.Sprintf("blob %d: certificate over key %d, window %s [%d,%d], KeyId %s %.80q", c.ID, c.Key.ID, c.Window, c.VA, c.VB, c.KidKind, c.KidText))
	}
	for i, s := range r.Steps {
		steps = append(steps, fmt.Sprintf("%d. t=%d %s -> %s | %s", i, s.Now, s.Op.Human(), s.Human, s.Obs.Human()))
	}
	var script []string
	if r.Sim != nil {
		var idx []int
		for i := range r.Sim.Script {
			idx = append(idx, i)
		}
		sort.Ints(idx)
		for _, i := range idx {
			f := r.Sim.Script[i]
			script = append(script, fmt.Sprintf("request %d: %s (executed first: %v)", i, f.Kind.Gallina(), f.Exec))
		}
	}
	return map[string]interface{}{"no_upstream": r.NoUp, "pub_key_comp": []string{"default", "ascending by encoding", "descending by encoding"}[r.Plan.Comp], "agent_initially": r.Plan.Initial, "plain_keys": "blobs 1..6 = rsa2048, p256a, p384, p256b, ed25519a, ed25519b",
		"certificates": certs, "faults": script, "constructed": r.Sim != nil && r.Sim.Built, "after_construction": r.Obs0.Human(), "steps": steps}
}

// Emit reports native failures and emits the CHist case of a result.
func (r *Result) Emit(c *core.Ctx) {
	if r.Err != nil {
		c.Native("harness: cannot run the history: "+r.Err.Error(), r.Plan.Class)
		return
	}
	for _, b := range r.Sim.Bad {
		c.Native(b, r.Human())
	}
	c.NativeCheck(r.Sim.Checks)
	if r.Sim.TimeAmbiguous {
		c.Stat("skipped-clock-crossed-a-validity-edge")
		return
	}
	for _, s := range r.Steps {
		c.Stat("op-" + s.Op.Kind.String())
	}
	for _, ce := range r.Certs {
		c.Stat("window-" + ce.Window)
		c.Stat("keyid-" + ce.KidKind)
	}
	g := core.GApp("CHist", r.gTable(), core.GBool(r.NoUp), gIDs(r.Plan.Initial), r.Sim.GScript(), core.GBool(r.Sim.Built), r.Obs0.Gallina(), r.gSteps())
	c.Case(r.Plan.Class, g, r.Human())
}

// EmitTwo emits the CTwo case of the same plan run in both modes.
func EmitTwo(c *core.Ctx, up, no *Result) {
	for _, r := range []*Result{up, no} {
		if r.Err != nil {
			c.Native("harness: cannot run the history: "+r.Err.Error(), r.Plan.Class)
			return
		}
		for _, b := range r.Sim.Bad {
			c.Native(b, r.Human())
		}
		c.NativeCheck(r.Sim.Checks)
	}
	if up.Sim.TimeAmbiguous || no.Sim.TimeAmbiguous || !up.Sim.Built || !no.Sim.Built || len(up.Steps) != len(no.Steps) {
		c.Stat("skipped-two-mode-history")
		return
	}
	for i := range up.Steps {
		if up.Steps[i].Now != no.Steps[i].Now {
			// same history means same clock readings; a second boundary between
			// the two runs only matters near a validity edge, which the windows avoid
			no.Steps[i].Now = up.Steps[i].Now
		}
	}
	g := core.GApp("CTwo", up.gTable(), gIDs(up.Plan.Initial), up.Obs0.Gallina(), up.gSteps(), no.Obs0.Gallina(), no.gSteps())
	c.Case(up.Plan.Class, g, map[string]interface{}{"mode_off": up.Human(), "mode_on": no.Human()})
}

// ScenarioPlans returns directed fault-free histories around the orphan and
// expiry rules (the random generator reaches them only occasionally).
func ScenarioPlans(r *mrand.Rand, pool *Pool, n int) []*Plan {
	var out []*Plan
	nk := len(pool.Keys)
	op := func(k OpKind, b uint64) *Op { return &Op{Kind: k, Blob: b} }
	for i := 0; i < n; i++ {
		k := uint64(1 + r.Intn(nk))
		k2 := uint64(1 + (int(k)+r.Intn(nk-1))%nk)
		p := &Plan{NoUp: r.Intn(2) == 0, Comp: core.Pick(r, 0, 1, 2), Data: map[uint64][]byte{1: []byte("data-1"), 2: []byte("data-2")}}
		win := core.Pick(r, "current", "forever", "epoch-forever", "vb-2^63", "past", "future", "zero", "inverted", "va-2^63", "soon", "just-expired")
		kid, kk := GenKeyID(r)
		c := CertSpec{ID: pool.ReserveID(), KeyID: k, Window: win, KidText: kid, KidKind: kk}
		kid2, kk2 := GenKeyID(r)
		e := CertSpec{ID: pool.ReserveID(), KeyID: k, Window: core.Pick(r, "current", "past", "forever"), KidText: kid2, KidKind: kk2}
		p.Certs = []CertSpec{c, e}
		sign := func(b uint64, d uint64) *Op { return &Op{Kind: OpSign, Blob: b, DataID: d} }
		switch i % 7 {
		case 6: // an out-of-window hardware certificate in memory while the agent reports nothing at all (the
			// empty-report exception is for the keyless rule only, not for validity)
			p.Class = "scenario-invalid-in-memory-agent-empty"
			c.Window = core.Pick(r, "past", "future", "zero", "one-second-ago", "inverted")
			e.Window = core.Pick(r, "current", "forever")
			p.Certs = []CertSpec{c, e}
			p.Initial = []uint64{k}
			p.Ops = []*Op{op(OpAddHard, c.ID), op(OpAddHard, e.ID), op(OpDirectRemove, k), op(core.Pick(r, OpList, OpSigners), 0), op(OpSigners, 0), op(OpList, 0),
				op(OpDirectAdd, k), op(OpAddHard, c.ID), op(OpRemove, k), sign(c.ID, 1), op(OpList, 0)}
		case 5: // everything the agent still reports is an out-of-window certificate, and the hardware certificate's key is gone
			p.Class = "scenario-only-invalid-certificates-reported"
			kx, kkx := GenKeyID(r)
			x := CertSpec{ID: pool.ReserveID(), KeyID: k2, Window: core.Pick(r, "past", "future", "zero", "one-second-ago"), KidText: kx, KidKind: kkx}
			c.Window = core.Pick(r, "current", "forever")
			p.Certs = []CertSpec{c, e, x}
			p.Initial = []uint64{k}
			p.Ops = []*Op{op(OpAddHard, c.ID), op(OpDirectAdd, x.ID), op(OpDirectRemove, k), op(core.Pick(r, OpList, OpSigners), 0), op(OpList, 0), sign(c.ID, 1),
				op(OpDirectAdd, k), op(OpAddHard, c.ID), op(OpDirectAdd, x.ID), op(OpDirectRemove, k), sign(c.ID, 2), op(OpSigners, 0)}
		case 4: // several out-of-window certificates next to each other in the agent's listing, others after them
			p.Class = "scenario-adjacent-invalid"
			bad := func() string {
				return core.Pick(r, "past", "future", "zero", "inverted", "one-second-ago", "va-2^63", "soon", "just-expired")
			}
			var ids []uint64
			nbad := 2 + r.Intn(3)
			for j := 0; j < nbad; j++ {
				kj, kkj := GenKeyID(r)
				x := CertSpec{ID: pool.ReserveID(), KeyID: uint64(1 + r.Intn(nk)), Window: bad(), KidText: kj, KidKind: kkj}
				p.Certs = append(p.Certs, x)
				ids = append(ids, x.ID)
			}
			c.Window = core.Pick(r, "current", "forever")
			p.Certs[0] = c
			switch r.Intn(3) {
			case 0:
				p.Initial = append(append([]uint64{}, ids...), k, c.ID)
			case 1:
				p.Initial = append(append([]uint64{k}, ids...), c.ID, k2)
			default:
				p.Initial = append(append([]uint64{c.ID, k}, ids...), k2)
			}
			first := core.Pick(r, OpList, OpSigners, OpSign)
			if first == OpSign {
				p.Ops = []*Op{sign(k, 1)}
			} else {
				p.Ops = []*Op{op(first, 0)}
			}
			p.Ops = append(p.Ops, op(OpList, 0), op(OpSigners, 0), sign(ids[1], 2), op(OpAddHard, c.ID), op(OpAddHard, ids[0]), op(OpAddHard, ids[1]), op(OpList, 0), op(OpList, 0))
		case 0: // the agent's report becomes empty, then non-empty without the key
			p.Class = "scenario-empty-report"
			p.Initial = []uint64{k}
			p.Ops = []*Op{op(OpAddHard, c.ID), op(OpList, 0), op(OpDirectRemove, k), op(OpList, 0), op(OpSigners, 0), sign(c.ID, 1),
				op(OpList, 0), op(OpDirectAdd, k2), op(OpList, 0), op(OpSigners, 0), op(OpDirectAdd, k), op(OpAddHard, c.ID), op(OpList, 0)}
		case 1: // the key is only held under another certificate
			p.Class = "scenario-key-under-certificate"
			p.Initial = []uint64{e.ID}
			p.Ops = []*Op{op(OpAddHard, c.ID), op(OpDirectAdd, k), op(OpAddHard, c.ID), op(OpDirectRemove, k), op(OpList, 0), sign(c.ID, 1),
				op(OpSigners, 0), op(OpDirectRemove, e.ID), op(OpDirectAdd, k2), op(OpList, 0)}
		case 2: // the same certificate in memory and in the agent
			p.Class = "scenario-same-certificate-both-stores"
			p.Initial = []uint64{k, k2}
			p.Ops = []*Op{op(OpAdd, c.ID), op(OpAddHard, c.ID), op(OpList, 0), op(OpSigners, 0), sign(c.ID, 1), op(OpRemove, c.ID), op(OpList, 0),
				op(OpAddHard, c.ID), op(OpAdd, c.ID), sign(c.ID, 2), op(OpList, 0)}
		default: // sign first: the purge happens inside SignWithFlags
			p.Class = "scenario-sign-purges"
			p.Initial = []uint64{k, e.ID}
			p.Ops = []*Op{op(OpAddHard, c.ID), op(OpAddHard, e.ID), sign(c.ID, 1), sign(e.ID, 2), op(OpDirectRemove, k), sign(c.ID, 1), op(OpList, 0), op(OpSigners, 0)}
		}
		out = append(out, p)
	}
	return out
}
