package shimsim

import (
	"encoding/binary"
	"io"
	"net"
	"os"
	"path/filepath"
	"sync"
	"time"

	"golang.org/x/crypto/ssh/agent"
)

// Fault kinds (coq/Model/UAgent.v: fkind).
type FKind int

const (
	FFail FKind = iota
	FMalformed
	FOversize
	FClose
	// FWrongType answers with a well-formed agent message of a type the request
	// does not expect (the proxy picks it by request opcode).
	FWrongType
)

func (k FKind) Gallina() string {
	return [...]string{"FFail", "FMalformed", "FOversize", "FClose", "FWrongType"}[k]
}

// Fault: what the proxy does with the request frame of a given index.
type Fault struct {
	Exec bool // hand the request to the agent first, then replace the reply
	Kind FKind
	Body []byte // FMalformed / FWrongType: the reply body to send
	// Partial (FClose with Exec): the connection is closed in the middle of the genuine reply - after the length
	// prefix and Partial-1 bytes of the body (1 = right after the prefix).  For the caller this is a closed connection.
	Partial int
}

const maxFrame = 16 << 20

// Proxy listens on a unix socket, numbers the request frames it receives,
// injects scripted faults and otherwise relays each frame to the scripted
// agent served by x/crypto's agent.ServeAgent. Frames whose first byte is
// >= 0x80 (and empty frames) are "raw" requests of Forward: they are logged and
// answered with the reply registered for exactly these bytes.
type Proxy struct {
	Dir, Sock string
	ln        net.Listener
	agent     *SAgent

	mu       sync.Mutex
	script   map[int]Fault
	delays   map[int]time.Duration // request index -> how long the agent takes to answer it (it does answer)
	n        int                   // request frames received
	rawLog   []uint64              // ids of the raw bodies received (0 = bytes that were never registered)
	raws     map[string]rawEnt
	injected []byte // last injected reply body
	alive    bool
	fired    int // faults injected so far
	conn     net.Conn
	backA    net.Conn
	done     chan struct{}
}

type rawEnt struct {
	id    uint64
	reply []byte
}

func NewProxy(a *SAgent) (*Proxy, error) {
	dir, err := os.MkdirTemp("", "shimsim")
	if err != nil {
		return nil, err
	}
	p := &Proxy{Dir: dir, Sock: filepath.Join(dir, "a.sock"), agent: a, script: map[int]Fault{}, raws: map[string]rawEnt{}, alive: true, done: make(chan struct{})}
	p.ln, err = net.Listen("unix", p.Sock)
	if err != nil {
		os.RemoveAll(dir)
		return nil, err
	}
	a1, b1 := net.Pipe()
	p.backA = a1
	go agent.ServeAgent(a, b1)
	go p.serve()
	return p, nil
}

// Stop closes everything and removes the socket directory.
func (p *Proxy) Stop() {
	p.ln.Close()
	p.mu.Lock()
	if p.conn != nil {
		p.conn.Close()
	}
	p.mu.Unlock()
	p.backA.Close()
	os.RemoveAll(p.Dir)
}

// SetDelay: the request with this index is answered only after d.
func (p *Proxy) SetDelay(idx int, d time.Duration) {
	p.mu.Lock()
	if p.delays == nil {
		p.delays = map[int]time.Duration{}
	}
	p.delays[idx] = d
	p.mu.Unlock()
}

func (p *Proxy) SetFault(idx int, f Fault) {
	p.mu.Lock()
	p.script[idx] = f
	p.mu.Unlock()
}

// Count returns the number of request frames received so far.
func (p *Proxy) Count() int  { p.mu.Lock(); defer p.mu.Unlock(); return p.n }
func (p *Proxy) Fired() int  { p.mu.Lock(); defer p.mu.Unlock(); return p.fired }
func (p *Proxy) Alive() bool { p.mu.Lock(); defer p.mu.Unlock(); return p.alive }
func (p *Proxy) RawLog() []uint64 {
	p.mu.Lock()
	defer p.mu.Unlock()
	return append([]uint64(nil), p.rawLog...)
}
func (p *Proxy) Injected() []byte { p.mu.Lock(); defer p.mu.Unlock(); return p.injected }

// ExpectRaw registers a raw request body and the reply to give for it.
func (p *Proxy) ExpectRaw(id uint64, body, reply []byte) {
	p.mu.Lock()
	p.raws[string(body)] = rawEnt{id, reply}
	p.mu.Unlock()
}

func (p *Proxy) serve() {
	defer close(p.done)
	c, err := p.ln.Accept()
	if err != nil {
		return
	}
	p.mu.Lock()
	p.conn = c
	p.mu.Unlock()
	defer c.Close()
	var hdr [4]byte
	for {
		if _, err := io.ReadFull(c, hdr[:]); err != nil {
			return
		}
		l := binary.BigEndian.Uint32(hdr[:])
		if l > maxFrame+1024 {
			return
		}
		body := make([]byte, l)
		if _, err := io.ReadFull(c, body); err != nil {
			return
		}
		p.mu.Lock()
		idx := p.n
		p.n++
		f, faulted := p.script[idx]
		delay := p.delays[idx]
		p.mu.Unlock()
		if delay > 0 {
			time.Sleep(delay)
		}

		exec := !faulted || f.Exec
		var reply []byte
		if exec {
			reply = p.execute(body)
			if reply == nil && !faulted {
				return
			}
		}
		if !faulted {
			if len(reply) > maxFrame {
				// the client refuses the length prefix and leaves the body unread: the stream is unusable from here on
				p.mu.Lock()
				p.alive = false
				p.mu.Unlock()
			}
			if !writeFrame(c, reply) {
				return
			}
			continue
		}
		p.mu.Lock()
		p.fired++
		p.mu.Unlock()
		switch f.Kind {
		case FFail:
			p.setInjected([]byte{5})
			if !writeFrame(c, []byte{5}) {
				return
			}
		case FMalformed:
			p.setInjected(f.Body)
			if !writeFrame(c, f.Body) {
				return
			}
		case FWrongType:
			b := wrongTypeReply(body, idx)
			p.setInjected(b)
			if !writeFrame(c, b) {
				return
			}
		case FOversize:
			// only the length prefix: the client refuses it before reading a body
			binary.BigEndian.PutUint32(hdr[:], maxFrame+1)
			if _, err := c.Write(hdr[:]); err != nil {
				return
			}
		case FClose:
			p.mu.Lock()
			p.alive = false
			p.mu.Unlock()
			if f.Exec && f.Partial > 0 && len(reply) > 0 && len(reply) <= maxFrame {
				binary.BigEndian.PutUint32(hdr[:], uint32(len(reply)))
				n := f.Partial - 1
				if n >= len(reply) {
					n = len(reply) - 1
				}
				_, _ = c.Write(hdr[:])
				_, _ = c.Write(reply[:n])
			}
			return
		}
	}
}

// wrongTypeReply picks a well-formed agent message that is not an answer to
// this request (and is neither failure nor, for the simple requests, success).
func wrongTypeReply(req []byte, idx int) []byte {
	success := []byte{6}
	idents := []byte{12, 0, 0, 0, 0}  // identities answer, no keys
	sigresp := []byte{14, 0, 0, 0, 0} // sign response, empty blob
	v1 := []byte{2, 0, 0, 0, 0}       // protocol 1 identities answer
	op := byte(0)
	if len(req) > 0 {
		op = req[0]
	}
	switch op {
	case 11: // request identities
		return [][]byte{success, sigresp, v1}[idx%3]
	case 13: // sign request
		return [][]byte{success, idents, v1}[idx%3]
	default: // remove, remove all, add, lock, unlock, raw
		return [][]byte{idents, sigresp, v1}[idx%3]
	}
}

func (p *Proxy) setInjected(b []byte) {
	p.mu.Lock()
	p.injected = b
	p.mu.Unlock()
}

// execute hands one request body to the scripted agent (through x/crypto's
// server) or, for raw frames, logs it and returns the registered reply.
func (p *Proxy) execute(body []byte) []byte {
	p.mu.Lock()
	_, registered := p.raws[string(body)]
	p.mu.Unlock()
	// a raw frame: one the test registered (whatever its first byte - smartcard requests 20 / 21 / 26 are relayed raw
	// by the shim too), or anything outside the standard request codes
	if registered || len(body) == 0 || body[0] >= 0x80 {
		p.mu.Lock()
		ent, ok := p.raws[string(body)]
		if ok {
			p.rawLog = append(p.rawLog, ent.id)
		} else {
			p.rawLog = append(p.rawLog, 0)
		}
		p.mu.Unlock()
		if !ok {
			return []byte{5}
		}
		return ent.reply
	}
	if !writeFrame(p.backA, body) {
		return nil
	}
	var hdr [4]byte
	if _, err := io.ReadFull(p.backA, hdr[:]); err != nil {
		return nil
	}
	rep := make([]byte, binary.BigEndian.Uint32(hdr[:]))
	if _, err := io.ReadFull(p.backA, rep); err != nil {
		return nil
	}
	return rep
}

func writeFrame(w io.Writer, body []byte) bool {
	msg := make([]byte, 4+len(body))
	binary.BigEndian.PutUint32(msg, uint32(len(body)))
	copy(msg[4:], body)
	_, err := w.Write(msg)
	return err == nil
}
