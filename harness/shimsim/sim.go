package shimsim

import (
	"bytes"
	"crypto/rand"
	"fmt"
	"io"
	"log"
	"reflect"
	"sort"
	"strings"
	"time"

	"golang.org/x/crypto/ssh"
	"golang.org/x/crypto/ssh/agent"

	"github.com/theparanoids/ysshra/agent/shimagent"
	"verifharness/core"
)

func init() { log.SetOutput(io.Discard) } // x/crypto's agent server logs every refused request

type OpKind int

const (
	OpList OpKind = iota
	OpSigners
	OpSign
	OpAdd
	OpAddHard
	OpRemove
	OpRemoveAll
	OpLock
	OpUnlock
	OpForward
	OpClose
	OpDirectAdd
	OpDirectRemove
	OpSleep // harness only: let the wall clock advance; not part of the Coq history
)

var opNames = [...]string{"List", "Signers", "Sign", "Add", "AddHardCert", "Remove", "RemoveAll", "Lock", "Unlock", "Forward", "Close", "DirectAdd", "DirectRemove", "Sleep"}

func (k OpKind) String() string { return opNames[k] }

// Op is one planned operation. Faults are relative to the first request frame
// the operation sends (0 = its first request).
type Op struct {
	Kind    OpKind
	Blob    uint64
	DataID  uint64
	Flags   uint32
	Pass    []byte
	RawID   uint64
	RawBody []byte
	RawRep  []byte
	Faults  map[int]Fault
	SleepMs int
}

func gBytesList(b []byte) string {
	items := make([]string, len(b))
	for i, x := range b {
		items[i] = fmt.Sprint(int(x))
	}
	return "[" + strings.Join(items, ";") + "]%N"
}

func gIDs(ids []uint64) string {
	items := make([]string, len(ids))
	for i, x := range ids {
		items[i] = fmt.Sprint(x)
	}
	return "[" + strings.Join(items, ";") + "]%N"
}

// Gallina renders the operation as a term of Model.Shim.op.
func (o *Op) Gallina() string {
	switch o.Kind {
	case OpList:
		return "List_"
	case OpSigners:
		return "Signers"
	case OpSign:
		return core.GApp("Sign", core.GN(o.Blob), core.GN(o.DataID), core.GN(uint64(o.Flags)))
	case OpAdd:
		return core.GApp("Add", core.GN(o.Blob))
	case OpAddHard:
		return core.GApp("AddHardCert", core.GN(o.Blob))
	case OpRemove:
		return core.GApp("Remove", core.GN(o.Blob))
	case OpRemoveAll:
		return "RemoveAll"
	case OpLock:
		return core.GApp("Lock", gBytesList(o.Pass))
	case OpUnlock:
		return core.GApp("Unlock", gBytesList(o.Pass))
	case OpForward:
		return core.GApp("Forward", core.GN(o.RawID), core.GN(uint64(len(o.RawBody))), core.GN(uint64(len(o.RawRep))))
	case OpClose:
		return "Close"
	case OpDirectAdd:
		return core.GApp("DirectAdd", core.GN(o.Blob))
	case OpDirectRemove:
		return core.GApp("DirectRemove", core.GN(o.Blob))
	}
	panic("no Gallina form for " + o.Kind.String())
}

func (o *Op) Human() string {
	switch o.Kind {
	case OpSign:
		return fmt.Sprintf("Sign(blob %d, data %d, flags %d)", o.Blob, o.DataID, o.Flags)
	case OpAdd, OpAddHard, OpRemove, OpDirectAdd, OpDirectRemove:
		return fmt.Sprintf("%s(blob %d)", o.Kind, o.Blob)
	case OpLock, OpUnlock:
		return fmt.Sprintf("%s(%q)", o.Kind, o.Pass)
	case OpForward:
		return fmt.Sprintf("Forward(body %d: %d bytes, reply %d bytes)", o.RawID, len(o.RawBody), len(o.RawRep))
	}
	return o.Kind.String()
}

// Obs is the observable state after an operation (Model.ShimCheck.obs).
type Obs struct {
	Mem, Cache []uint64 // sorted
	Locked     bool
	Closed     bool     // a Close call has returned nil
	IDs        []uint64 // the scripted agent's identities, in its order
	ULocked    bool
	UPass      []byte
	Alive      bool
	ReqNo      int
	RawLog     []uint64
}

func (o *Obs) Gallina() string {
	pass := "None"
	if o.ULocked {
		pass = "(Some " + gBytesList(o.UPass) + ")"
	}
	return core.GApp("mkObs", gIDs(o.Mem), gIDs(o.Cache), core.GBool(o.Locked), core.GBool(o.Closed), gIDs(o.IDs), pass, core.GBool(o.Alive), core.GNat(o.ReqNo), gIDs(o.RawLog))
}

func (o *Obs) Human() string {
	return fmt.Sprintf("mem=%v cache=%v locked=%v closed=%v agent=%v agentLocked=%v alive=%v requests=%d raw=%v", o.Mem, o.Cache, o.Locked, o.Closed, o.IDs, o.ULocked, o.Alive, o.ReqNo, o.RawLog)
}

// StepObs is one executed operation with what was observed.
type StepObs struct {
	Now   int64
	Op    *Op
	Reply string // Gallina term of Model.Shim.reply
	Human string
	Obs   Obs
}

func (s *StepObs) Gallina() string {
	return core.GApp("mkStep", core.GZ(s.Now), s.Op.Gallina(), s.Reply, s.Obs.Gallina())
}

// Sim is one shim server over one scripted agent behind one proxy.
type Sim struct {
	Pool   *Pool
	Agent  *SAgent
	Proxy  *Proxy
	Shim   shimagent.ShimAgent
	NoUp   bool
	Built  bool
	Data   map[uint64][]byte
	Script map[int]Fault // absolute request index -> fault, as installed
	C      *core.Ctx
	Bad    []string // native oracle failures (panics, unknown blobs, byte mismatches)
	Checks int
	// TimeAmbiguous is set when the wall clock crossed a validity boundary of
	// a certificate while an operation ran: the history is then not emitted.
	TimeAmbiguous bool
	Certs         []*CertEnt
	closedOK      bool
	// replies handed out by earlier Forward calls (the slice as returned, and a copy taken at once): what a caller
	// received must not change under later operations
	fwdGot, fwdCopy [][]byte
}

// Cert returns the history's certificate with this blob id.
func (s *Sim) Cert(id uint64) *CertEnt {
	for _, c := range s.Certs {
		if c.ID == id {
			return c
		}
	}
	return nil
}

// PublicKeyOf returns an ssh.PublicKey value for a blob id (a parsed
// certificate or a plain key).
func (s *Sim) PublicKeyOf(id uint64) ssh.PublicKey {
	if c := s.Cert(id); c != nil {
		return c.Cert
	}
	if k := s.Pool.Key(id); k != nil {
		return k.Pub
	}
	return nil
}

// NewSim starts the scripted agent with the given identities, applies the
// construction-time faults and builds the shim with shimagent.New.
// CompLess is a real ordering of public keys (by encoding), for shims built with Option.PubKeyComp.
func CompLess(x, y ssh.PublicKey) bool { return bytes.Compare(x.Marshal(), y.Marshal()) < 0 }

// CompGreater is the reverse ordering.
func CompGreater(x, y ssh.PublicKey) bool { return bytes.Compare(x.Marshal(), y.Marshal()) > 0 }

// NewSim builds a shim with the default comparator.
func NewSim(pool *Pool, noup bool, initial []uint64, ctorFaults map[int]Fault, certs []*CertEnt) (*Sim, error) {
	return NewSimComp(pool, noup, initial, ctorFaults, certs, nil)
}

// NewSimComp: comp = Option.PubKeyComp (nil = the default).
func NewSimComp(pool *Pool, noup bool, initial []uint64, ctorFaults map[int]Fault, certs []*CertEnt, comp func(ssh.PublicKey, ssh.PublicKey) bool) (*Sim, error) {
	s := &Sim{Pool: pool, Agent: &SAgent{}, NoUp: noup, Data: map[uint64][]byte{}, Script: map[int]Fault{}, Certs: certs}
	for _, id := range initial {
		if err := s.directAdd(id); err != nil {
			return nil, err
		}
	}
	var err error
	s.Proxy, err = NewProxy(s.Agent)
	if err != nil {
		return nil, err
	}
	for i, f := range ctorFaults {
		s.Proxy.SetFault(i, f)
		s.Script[i] = f
	}
	var ag shimagent.ShimAgent
	var nerr error
	if p, msg := core.Guard(func() {
		ag, nerr = shimagent.New(shimagent.Option{Address: s.Proxy.Sock, NoUpstream: noup, PubKeyComp: comp})
	}); p {
		s.Bad = append(s.Bad, "panic in shimagent.New: "+firstLines(msg, 12))
		return s, nil
	}
	s.Checks++
	if nerr == nil && ag != nil && !reflect.ValueOf(ag).IsNil() {
		s.Shim, s.Built = ag, true
	} else if nerr == nil {
		s.Bad = append(s.Bad, "shimagent.New returned neither a server nor an error")
	}
	return s, nil
}

func (s *Sim) Stop() {
	if s.Shim != nil {
		core.Guard(func() { s.Shim.Close() })
	}
	if s.Proxy != nil {
		s.Proxy.Stop()
	}
}

func firstLines(s string, n int) string {
	l := strings.Split(s, "\n")
	if len(l) > n {
		l = l[:n]
	}
	return strings.Join(l, "\n")
}

func (s *Sim) addedKey(id uint64) (agent.AddedKey, error) {
	if c := s.Cert(id); c != nil {
		return agent.AddedKey{PrivateKey: c.Key.Priv, Certificate: c.Cert, Comment: fmt.Sprintf("c%d", id)}, nil
	}
	if k := s.Pool.Key(id); k != nil {
		return agent.AddedKey{PrivateKey: k.Priv, Comment: k.Name}, nil
	}
	return agent.AddedKey{}, fmt.Errorf("unknown blob id %d", id)
}

func (s *Sim) directAdd(id uint64) error {
	ak, err := s.addedKey(id)
	if err != nil {
		return err
	}
	s.Agent.Add(ak)
	return nil
}

// tableField finds one of the server's two tables: by its name in the pinned source, and - should the unexported
// field have been renamed - by its type (the certificate table is the map with pointer values, the cache of hidden
// upstream certificates the map with empty-struct values).
func tableField(v reflect.Value, name string) reflect.Value {
	if f := v.FieldByName(name); f.IsValid() && f.Kind() == reflect.Map {
		return f
	}
	var found reflect.Value
	n := 0
	for i := 0; i < v.NumField(); i++ {
		f := v.Field(i)
		if f.Kind() != reflect.Map {
			continue
		}
		el := f.Type().Elem()
		isCache := el.Kind() == reflect.Struct && el.NumField() == 0
		isCerts := el.Kind() == reflect.Ptr
		if (name == "upstreamSSHCACertCache" && isCache) || (name == "certs" && isCerts) {
			found = f
			n++
		}
	}
	if n == 1 {
		return found
	}
	return reflect.Value{}
}

// lockedField finds the lock flag: by name, else the only bool field whose name mentions "lock".
func lockedField(v reflect.Value) reflect.Value {
	if f := v.FieldByName("locked"); f.IsValid() && f.Kind() == reflect.Bool {
		return f
	}
	var found reflect.Value
	n := 0
	for i := 0; i < v.NumField(); i++ {
		if v.Field(i).Kind() == reflect.Bool && strings.Contains(strings.ToLower(v.Type().Field(i).Name), "lock") {
			found = v.Field(i)
			n++
		}
	}
	if n == 1 {
		return found
	}
	return reflect.Value{}
}

// Observe reads the state: the shim's tables through reflection (read-only),
// the scripted agent and the proxy directly.
func (s *Sim) Observe() Obs {
	var o Obs
	if s.Built {
		v := reflect.ValueOf(s.Shim).Elem()
		hashes := func(field string) []uint64 {
			var out []uint64
			m := tableField(v, field)
			if !m.IsValid() || m.Kind() != reflect.Map {
				s.Bad = append(s.Bad, "cannot observe Server."+field)
				return nil
			}
			it := m.MapRange()
			for it.Next() {
				var h [32]byte
				k := it.Key()
				for i := 0; i < 32 && i < k.Len(); i++ {
					h[i] = byte(k.Index(i).Uint())
				}
				id := s.Pool.IDOfHash(h)
				if id == 0 {
					s.Bad = append(s.Bad, "Server."+field+" holds the hash of an unknown blob")
				}
				out = append(out, id)
			}
			sort.Slice(out, func(i, j int) bool { return out[i] < out[j] })
			return out
		}
		o.Mem, o.Cache = hashes("certs"), hashes("upstreamSSHCACertCache")
		if f := lockedField(v); f.IsValid() && f.Kind() == reflect.Bool {
			o.Locked = f.Bool()
		} else {
			s.Bad = append(s.Bad, "cannot observe Server.locked")
		}
	}
	blobs, locked, pass := s.Agent.State()
	for _, b := range blobs {
		o.IDs = append(o.IDs, s.Pool.IDOfBlob(b))
	}
	o.ULocked, o.UPass = locked, pass
	o.Closed = s.closedOK
	o.Alive, o.ReqNo, o.RawLog = s.Proxy.Alive(), s.Proxy.Count(), s.Proxy.RawLog()
	return o
}

// errClass: the shim agent's own error kinds, told apart by sentinel (hook VerifErrKind), not by wording; the two
// ad-hoc "agent is locked" errors of Sign / Signers have no sentinel and are recognised by their text
func errClass(err error) string {
	switch shimagent.VerifErrKind(err) {
	case "locked":
		return "ELocked"
	case "not-locked":
		return "ENotLocked"
	case "key-not-found":
		return "EKeyNotFound"
	}
	if err.Error() == "agent is locked" {
		return "ELocked"
	}
	return "EOther"
}

func (s *Sim) listing(keys []ssh.PublicKey) []uint64 {
	out := make([]uint64, 0, len(keys))
	for _, k := range keys {
		id := s.Pool.IDOfBlob(k.Marshal())
		if id == 0 {
			s.Bad = append(s.Bad, "a listed identity has a blob that no source identity has (blob changed)")
		}
		out = append(out, id)
	}
	sort.Slice(out, func(i, j int) bool { return out[i] < out[j] })
	return out
}

// Do executes one operation and returns the observation (nil for OpSleep).
func (s *Sim) Do(op *Op) *StepObs {
	if op.Kind == OpSleep {
		time.Sleep(time.Duration(op.SleepMs) * time.Millisecond)
		return nil
	}
	base := s.Proxy.Count()
	for rel, f := range op.Faults {
		s.Proxy.SetFault(base+rel, f)
		s.Script[base+rel] = f
	}
	var reply, human string
	fail := func(err error) {
		reply = core.GApp("RErr", errClass(err))
		human = "error: " + err.Error()
	}
	t0 := time.Now().Unix()
	defer func() {
		for i := range s.fwdGot {
			if !bytes.Equal(s.fwdGot[i], s.fwdCopy[i]) {
				s.Bad = append(s.Bad, fmt.Sprintf("the %d-byte reply handed out by an earlier Forward call changed during a later %s", len(s.fwdCopy[i]), op.Kind))
				s.fwdGot[i] = append([]byte(nil), s.fwdCopy[i]...)
			} else {
				s.Checks++
			}
		}
	}()
	panicked, msg := core.Guard(func() {
		switch op.Kind {
		case OpList:
			keys, err := s.Shim.List()
			if err != nil {
				fail(err)
				return
			}
			pks := make([]ssh.PublicKey, len(keys))
			for i, k := range keys {
				pks[i] = k
			}
			ids := s.listing(pks)
			reply, human = core.GApp("RList", gIDs(ids)), fmt.Sprintf("listed %v", ids)
		case OpSigners:
			sg, err := s.Shim.Signers()
			if err != nil {
				fail(err)
				return
			}
			pks := make([]ssh.PublicKey, len(sg))
			for i, k := range sg {
				pks[i] = k.PublicKey()
			}
			ids := s.listing(pks)
			reply, human = core.GApp("RSigners", gIDs(ids)), fmt.Sprintf("signers %v", ids)
		case OpSign:
			data := s.Data[op.DataID]
			sig, err := s.Shim.SignWithFlags(s.PublicKeyOf(op.Blob), data, agent.SignatureFlags(op.Flags))
			if err != nil {
				fail(err)
				return
			}
			under := uint64(0)
			if sig != nil {
				for _, k := range s.Pool.Keys {
					if k.Pub.Verify(data, sig) == nil {
						under = k.ID
						break
					}
				}
			}
			if under == 1 && sig != nil { // the RSA key: the flags select the hash
				want := map[uint32]string{0: ssh.KeyAlgoRSA, 2: ssh.KeyAlgoRSASHA256, 4: ssh.KeyAlgoRSASHA512}[op.Flags]
				if want != "" && sig.Format != want {
					s.Bad = append(s.Bad, fmt.Sprintf("signature format %s for flags %d", sig.Format, op.Flags))
				}
			}
			reply = core.GApp("RSig", core.GN(under), core.GN(op.DataID), core.GN(uint64(op.Flags)))
			human = fmt.Sprintf("signature verifying under key %d (0 = none)", under)
		case OpAdd:
			ak, err := s.addedKey(op.Blob)
			if err == nil {
				err = s.Shim.Add(ak)
			}
			if err != nil {
				fail(err)
				return
			}
			reply, human = "ROk", "ok"
		case OpAddHard:
			if err := s.Shim.AddHardCert(s.PublicKeyOf(op.Blob), "sfx"); err != nil {
				fail(err)
				return
			}
			reply, human = "ROk", "ok"
		case OpRemove:
			if err := s.Shim.Remove(s.PublicKeyOf(op.Blob)); err != nil {
				fail(err)
				return
			}
			reply, human = "ROk", "ok"
		case OpRemoveAll:
			if err := s.Shim.RemoveAll(); err != nil {
				fail(err)
				return
			}
			reply, human = "ROk", "ok"
		case OpLock:
			if err := s.Shim.Lock(op.Pass); err != nil {
				fail(err)
				return
			}
			reply, human = "ROk", "ok"
		case OpUnlock:
			if err := s.Shim.Unlock(op.Pass); err != nil {
				fail(err)
				return
			}
			reply, human = "ROk", "ok"
		case OpClose:
			if err := s.Shim.Close(); err != nil {
				fail(err)
				return
			}
			s.closedOK = true
			reply, human = "ROk", "ok"
		case OpForward:
			s.Proxy.ExpectRaw(op.RawID, op.RawBody, op.RawRep)
			resp, err := s.Shim.Forward(op.RawBody)
			if err != nil {
				fail(err)
				return
			}
			s.fwdGot, s.fwdCopy = append(s.fwdGot, resp), append(s.fwdCopy, append([]byte(nil), resp...))
			inj := s.Proxy.Injected()
			switch {
			case s.Proxy.Fired() > 0 && s.faultedAt(base) && bytes.Equal(resp, inj):
				reply = core.GApp("RRawInjected", s.Script[base].Kind.Gallina())
				human = fmt.Sprintf("the %d injected bytes", len(resp))
			case bytes.Equal(resp, op.RawRep):
				reply, human = core.GApp("RRaw", core.GN(op.RawID)), fmt.Sprintf("the registered reply (%d bytes), byte for byte", len(resp))
			default:
				s.Bad = append(s.Bad, fmt.Sprintf("Forward returned %d bytes that differ from the agent's %d-byte reply", len(resp), len(op.RawRep)))
				reply, human = core.GApp("RRaw", "0%N"), "different bytes"
			}
			s.Checks++
		case OpDirectAdd:
			s.directAdd(op.Blob)
			reply, human = "ROk", "done on the agent"
		case OpDirectRemove:
			if pk := s.PublicKeyOf(op.Blob); pk != nil {
				s.Agent.Remove(pk)
			}
			reply, human = "ROk", "done on the agent"
		}
	})
	t1 := time.Now().Unix()
	if panicked {
		s.Bad = append(s.Bad, fmt.Sprintf("panic in %s: %s", op.Human(), firstLines(msg, 14)))
		return nil
	}
	s.Checks++
	if t1 != t0 {
		for _, c := range s.Certs {
			for _, edge := range []uint64{c.VA, c.VB} {
				if edge < 1<<62 && int64(edge)+1 >= t0 && int64(edge) <= t1 {
					s.TimeAmbiguous = true
				}
			}
		}
	}
	return &StepObs{Now: t0, Op: op, Reply: reply, Human: human, Obs: s.Observe()}
}

func (s *Sim) faultedAt(idx int) bool { _, ok := s.Script[idx]; return ok }

// GScript renders the installed fault script (model alphabet only).
func (s *Sim) GScript() string {
	var idx []int
	for i := range s.Script {
		idx = append(idx, i)
	}
	sort.Ints(idx)
	var items []string
	for _, i := range idx {
		f := s.Script[i]
		items = append(items, core.GPair(core.GNat(i), core.GApp("mkFault", core.GBool(f.Exec), f.Kind.Gallina())))
	}
	return core.GList(items)
}

// ProbeSigners uses every signer object Signers() returns: the signature verifies under the signer's own public key,
// and for an RSA key it is made with the algorithm that was asked for.  A locked or closed shim hands out nothing.
func (s *Sim) ProbeSigners() {
	var sg []ssh.Signer
	var err error
	if p, msg := core.Guard(func() { sg, err = s.Shim.Signers() }); p {
		s.Bad = append(s.Bad, "panic in Signers after the history: "+strings.SplitN(msg, "\n", 2)[0])
		return
	}
	if err != nil {
		return
	}
	inMem := map[string]bool{}
	obs := s.Observe()
	for _, id := range obs.Mem {
		if c := s.Cert(id); c != nil {
			inMem[string(c.Cert.Marshal())] = true
		}
	}
	for i, k := range sg {
		data := []byte(fmt.Sprintf("signer probe %d", i))
		pub := k.PublicKey()
		algos := []string{""}
		base := pub.Type()
		if parsed, perr := ssh.ParsePublicKey(pub.Marshal()); perr == nil {
			if c, ok := parsed.(*ssh.Certificate); ok {
				base = c.Key.Type()
			}
		}
		if _, ok := k.(ssh.AlgorithmSigner); ok {
			if base == ssh.KeyAlgoRSA {
				algos = append(algos, ssh.KeyAlgoRSASHA256, ssh.KeyAlgoRSASHA512, ssh.KeyAlgoRSA)
			} else {
				algos = append(algos, base)
			}
		}
		for _, alg := range algos {
			var sig *ssh.Signature
			var serr error
			if p, msg := core.Guard(func() {
				if alg == "" {
					sig, serr = k.Sign(rand.Reader, data)
				} else {
					sig, serr = k.(ssh.AlgorithmSigner).SignWithAlgorithm(rand.Reader, data, alg)
				}
			}); p {
				s.Bad = append(s.Bad, fmt.Sprintf("a signer from Signers() panicked (algorithm %q): %s", alg, strings.SplitN(msg, "\n", 2)[0]))
				return
			}
			switch {
			case serr != nil:
				// a hardware certificate stays listed while the agent reports an empty list (C07), and a certificate the
				// agent holds may have lost its plain key: a signer can only sign when the agent holds the identity the
				// shim signs with - the certificate's key for a hardware certificate, the identity itself otherwise
				need := pub.Marshal()
				if parsed, perr := ssh.ParsePublicKey(pub.Marshal()); perr == nil {
					if c, ok := parsed.(*ssh.Certificate); ok && inMem[string(pub.Marshal())] {
						need = c.Key.Marshal()
					}
				}
				blobs, locked, _ := s.Agent.State()
				held := false
				for _, b := range blobs {
					held = held || bytes.Equal(b, need)
				}
				if locked || !held {
					continue
				}
				s.Bad = append(s.Bad, fmt.Sprintf("a signer Signers() had just handed out (%s) cannot sign (algorithm %q) although the underlying agent holds its key: %v", pub.Type(), alg, serr))
				return
			case sig == nil || pub.Verify(data, sig) != nil:
				s.Bad = append(s.Bad, fmt.Sprintf("the signature of a signer from Signers() (%s, algorithm %q) does not verify under the signer's public key", pub.Type(), alg))
				return
			case alg != "" && base == ssh.KeyAlgoRSA && sig.Format != alg:
				s.Bad = append(s.Bad, fmt.Sprintf("a signer from Signers() was asked for %s and signed with %s", alg, sig.Format))
				return
			}
			s.Checks++
		}
	}
}
