package shimsim

import (
	"bytes"
	"crypto/rand"
	"errors"
	"sync"

	"golang.org/x/crypto/ssh"
	"golang.org/x/crypto/ssh/agent"
)

// SAgent is the scripted underlying agent; its semantics are exactly those of
// coq/Model/UAgent.v: ordered identities, replace-in-place on add of a held
// blob, fail-on-missing remove that keeps the order, passphrase lock (list is
// empty while locked, everything else fails), sign fails when the blob is
// missing. Constraints (lifetime, confirm) are ignored.
type SAgent struct {
	mu   sync.Mutex
	ids  []sIdent
	pass []byte
	lock bool
}

type sIdent struct {
	blob    []byte
	signer  ssh.Signer
	comment string
}

var errS = errors.New("scripted agent: refused")

// State returns the identity blobs in order and the lock state.
func (a *SAgent) State() (blobs [][]byte, locked bool, pass []byte) {
	a.mu.Lock()
	defer a.mu.Unlock()
	for _, i := range a.ids {
		blobs = append(blobs, i.blob)
	}
	return blobs, a.lock, append([]byte(nil), a.pass...)
}

func (a *SAgent) List() ([]*agent.Key, error) {
	a.mu.Lock()
	defer a.mu.Unlock()
	if a.lock {
		return nil, nil
	}
	var out []*agent.Key
	for _, i := range a.ids {
		out = append(out, &agent.Key{Format: i.signer.PublicKey().Type(), Blob: i.blob, Comment: i.comment})
	}
	return out, nil
}

func (a *SAgent) Add(key agent.AddedKey) error {
	a.mu.Lock()
	defer a.mu.Unlock()
	if a.lock {
		return errS
	}
	var signer ssh.Signer
	var err error
	if sk, ok := key.PrivateKey.(*SKSigner); ok {
		signer = sk
	} else if signer, err = ssh.NewSignerFromKey(key.PrivateKey); err != nil {
		return err
	}
	if key.Certificate != nil {
		signer, err = ssh.NewCertSigner(key.Certificate, signer)
		if err != nil {
			return err
		}
	}
	id := sIdent{blob: signer.PublicKey().Marshal(), signer: signer, comment: key.Comment}
	for k := range a.ids {
		if bytes.Equal(a.ids[k].blob, id.blob) {
			a.ids[k] = id
			return nil
		}
	}
	a.ids = append(a.ids, id)
	return nil
}

func (a *SAgent) Remove(key ssh.PublicKey) error {
	a.mu.Lock()
	defer a.mu.Unlock()
	if a.lock {
		return errS
	}
	want := key.Marshal()
	for k := range a.ids {
		if bytes.Equal(a.ids[k].blob, want) {
			a.ids = append(a.ids[:k:k], a.ids[k+1:]...)
			return nil
		}
	}
	return errS
}

func (a *SAgent) RemoveAll() error {
	a.mu.Lock()
	defer a.mu.Unlock()
	if a.lock {
		return errS
	}
	a.ids = nil
	return nil
}

func (a *SAgent) Lock(passphrase []byte) error {
	a.mu.Lock()
	defer a.mu.Unlock()
	if a.lock {
		return errS
	}
	a.lock, a.pass = true, append([]byte(nil), passphrase...)
	return nil
}

func (a *SAgent) Unlock(passphrase []byte) error {
	a.mu.Lock()
	defer a.mu.Unlock()
	if !a.lock || !bytes.Equal(passphrase, a.pass) {
		return errS
	}
	a.lock, a.pass = false, nil
	return nil
}

func (a *SAgent) Sign(key ssh.PublicKey, data []byte) (*ssh.Signature, error) {
	return a.SignWithFlags(key, data, 0)
}

// SignWithFlags honours the RSA SHA-2 flags for RSA keys and ignores flags for
// every other key type.
func (a *SAgent) SignWithFlags(key ssh.PublicKey, data []byte, flags agent.SignatureFlags) (*ssh.Signature, error) {
	a.mu.Lock()
	defer a.mu.Unlock()
	if a.lock {
		return nil, errS
	}
	want := key.Marshal()
	for _, i := range a.ids {
		if !bytes.Equal(i.blob, want) {
			continue
		}
		algo := ""
		if as, ok := i.signer.(ssh.AlgorithmSigner); ok {
			base := i.signer.PublicKey().Type()
			if base == ssh.KeyAlgoRSA || base == ssh.CertAlgoRSAv01 {
				switch {
				case flags&agent.SignatureFlagRsaSha512 != 0:
					algo = ssh.KeyAlgoRSASHA512
				case flags&agent.SignatureFlagRsaSha256 != 0:
					algo = ssh.KeyAlgoRSASHA256
				}
			}
			if algo != "" {
				return as.SignWithAlgorithm(rand.Reader, data, algo)
			}
		}
		return i.signer.Sign(rand.Reader, data)
	}
	return nil, errS
}

func (a *SAgent) Signers() ([]ssh.Signer, error) {
	a.mu.Lock()
	defer a.mu.Unlock()
	if a.lock {
		return nil, errS
	}
	var out []ssh.Signer
	for _, i := range a.ids {
		out = append(out, i.signer)
	}
	return out, nil
}

func (a *SAgent) Extension(string, []byte) ([]byte, error) {
	return nil, agent.ErrExtensionUnsupported
}

var _ agent.ExtendedAgent = (*SAgent)(nil)
