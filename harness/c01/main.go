// Command c01 is the C01 correspondence harness: sessions of gensign.Run
// against a scripted agent, mock signer and scripted handlers (package gensim),
// evaluated in Coq by Model/C01Check.v.
package main

import (
	"verifharness/core"
	"verifharness/gensim"
)

func main() {
	core.Main("C01", &core.Driver{
		Imports:   gensim.Imports + "\nFrom Verif Require Import Model.C01Check.",
		CheckFn:   "C01Check.check",
		ClassFn:   "C01Check.classify",
		CaseType:  "C01Check.case",
		ShardSize: 60,
		Run:       func(c *core.Ctx) { gensim.NewGen(c, "C01").DriveC01() },
	})
}
