// C09 harness: fault-free histories of add / add-hardware-certificate / remove /
// remove-all / list / signers / sign over certificates whose KeyId is a valid
// YSSHCA KeyID of every kind (all touch policies, hardware, firefighter,
// headless, nonce, nil principals), a near miss (missing field, unsupported
// version, inconsistent flags, case-renamed field, retyped field), other JSON
// or free text - held by the underlying agent at start-up, added later through
// the shim or behind its back, and/or held in memory - in no-upstream mode, with
// the mode off, and the same history on two shims (mode off / mode on) over two
// identically filled agents.
package main

import (
	mrand "math/rand"

	"verifharness/core"
	"verifharness/shimsim"
)

func main() {
	core.Main("C09", &core.Driver{
		Imports:   "From Verif Require Import Lib.Base Lib.Json Model.KeyId Model.UAgent Model.Shim Model.ShimCheck Model.C09Check.",
		CheckFn:   "C09Check.check",
		ClassFn:   "C09Check.classify",
		CaseType:  "ShimCheck.case",
		ShardSize: 24,
		Run:       run,
	})
}

// scenarios: directed histories around the cache (what the random generator
// reaches only occasionally): a YSSHCA certificate that arrives after
// construction and is first seen by List or first seen by Signers; sign and
// remove of a hidden certificate; a hidden certificate that is also an
// in-memory hardware certificate; re-adding after removal.
func scenarios(r *mrand.Rand, pool *shimsim.Pool, n int) []*shimsim.Plan {
	var out []*shimsim.Plan
	nk := len(pool.Keys)
	op := func(k shimsim.OpKind, b uint64) *shimsim.Op { return &shimsim.Op{Kind: k, Blob: b} }
	ysshca := func() (string, string) {
		for {
			t, k := shimsim.GenKeyID(r)
			if k[:3] == "yss" {
				return t, k
			}
		}
	}
	other := func() (string, string) {
		for {
			t, k := shimsim.GenKeyID(r)
			if k[:3] != "yss" {
				return t, k
			}
		}
	}
	for i := 0; i < n; i++ {
		k := uint64(1 + r.Intn(nk))
		k2 := uint64(1 + (int(k)+r.Intn(nk-1))%nk)
		p := &shimsim.Plan{Data: map[uint64][]byte{1: []byte("data-1"), 2: []byte("data-2"), 3: []byte("data-3")}}
		ty, ky := ysshca()
		ty2, ky2 := ysshca()
		to, ko := other()
		win := core.Pick(r, "current", "current", "forever", "epoch-forever")
		y := shimsim.CertSpec{ID: pool.ReserveID(), KeyID: k, Window: win, KidText: ty, KidKind: ky}
		y2 := shimsim.CertSpec{ID: pool.ReserveID(), KeyID: k2, Window: "current", KidText: ty2, KidKind: ky2}
		o := shimsim.CertSpec{ID: pool.ReserveID(), KeyID: k, Window: "current", KidText: to, KidKind: ko}
		p.Certs = []shimsim.CertSpec{y, y2, o}
		sign := func(b uint64, d uint64) *shimsim.Op { return &shimsim.Op{Kind: shimsim.OpSign, Blob: b, DataID: d} }
		L, S := shimsim.OpList, shimsim.OpSigners
		switch i % 6 {
		case 0: // arrives later through the shim; List sees it first
			p.Class = "scenario-added-later-list-first"
			p.Initial = []uint64{k, o.ID}
			p.Ops = []*shimsim.Op{op(L, 0), op(shimsim.OpAdd, y.ID), op(L, 0), op(S, 0), op(L, 0), sign(y.ID, 1), sign(o.ID, 2), sign(k, 3)}
		case 1: // arrives later behind the shim's back; Signers sees it first
			p.Class = "scenario-added-later-signers-first"
			p.Initial = []uint64{k}
			p.Ops = []*shimsim.Op{op(S, 0), op(shimsim.OpDirectAdd, y.ID), op(shimsim.OpDirectAdd, o.ID), op(S, 0), op(L, 0), op(S, 0), sign(y.ID, 1), sign(o.ID, 2)}
		case 2: // there at start-up; removed while hidden; added again
			p.Class = "scenario-remove-hidden"
			p.Initial = []uint64{k, y.ID, y2.ID, o.ID}
			p.Ops = []*shimsim.Op{op(L, 0), op(shimsim.OpRemove, y.ID), op(L, 0), op(S, 0), op(shimsim.OpAdd, y.ID), op(L, 0), op(S, 0),
				op(shimsim.OpRemove, y.ID), op(shimsim.OpRemove, y.ID), sign(y2.ID, 1), op(shimsim.OpRemove, y2.ID), op(L, 0)}
		case 3: // hidden in the agent and an in-memory hardware certificate at the same time
			p.Class = "scenario-hidden-and-in-memory"
			p.Initial = []uint64{k, y.ID}
			p.Ops = []*shimsim.Op{op(shimsim.OpAddHard, y.ID), op(L, 0), op(S, 0), sign(y.ID, 1), op(shimsim.OpRemove, y.ID), op(L, 0), sign(y.ID, 2),
				op(shimsim.OpAddHard, y2.ID), op(shimsim.OpDirectAdd, k2), op(shimsim.OpAddHard, y2.ID), op(L, 0), sign(y2.ID, 3)}
		case 4: // remove-all empties the cache; the same certificate comes back
			p.Class = "scenario-remove-all"
			p.Initial = []uint64{y.ID, k}
			p.Ops = []*shimsim.Op{op(S, 0), op(shimsim.OpRemoveAll, 0), op(L, 0), op(shimsim.OpDirectAdd, y.ID), op(shimsim.OpDirectAdd, k), op(L, 0), op(S, 0), sign(y.ID, 1)}
		default: // signers first, then list (the cache is shared by both)
			p.Class = "scenario-signers-then-list"
			p.Initial = []uint64{k, k2}
			p.Ops = []*shimsim.Op{op(shimsim.OpAdd, y.ID), op(shimsim.OpAdd, y2.ID), op(shimsim.OpAdd, o.ID), op(S, 0), op(L, 0), op(S, 0), op(L, 0),
				sign(o.ID, 1), sign(y2.ID, 2), op(shimsim.OpRemove, o.ID), op(L, 0)}
		}
		p.NoUp = r.Intn(4) > 0
		out = append(out, p)
	}
	return out
}

func run(c *core.Ctx) {
	r := c.Rng
	pool, err := shimsim.NewPool()
	if err != nil {
		c.Native("harness: key pool: "+err.Error(), nil)
		return
	}
	w := map[shimsim.OpKind]int{
		shimsim.OpList: 16, shimsim.OpSigners: 14, shimsim.OpSign: 16, shimsim.OpAdd: 14, shimsim.OpAddHard: 8, shimsim.OpRemove: 10,
		shimsim.OpRemoveAll: 1, shimsim.OpDirectAdd: 8, shimsim.OpDirectRemove: 3}
	wins := []string{"current", "current", "current", "forever", "epoch-forever", "past", "future"}
	on, off := true, false
	cfgOn := &shimsim.Cfg{MinOps: 6, MaxOps: 36, Weights: w, Windows: wins, YSSHCA: 55, NoUp: &on}
	cfgOff := &shimsim.Cfg{MinOps: 6, MaxOps: 36, Weights: w, Windows: wins, YSSHCA: 55, NoUp: &off}
	var plans []*shimsim.Plan
	plans = append(plans, scenarios(r, pool, c.N(48, 900))...)
	for i, n := 0, c.N(70, 1500); i < n; i++ {
		plans = append(plans, shimsim.GenPlan(r, pool, cfgOn, "no-upstream"))
	}
	for i, n := 0, c.N(30, 600); i < n; i++ {
		plans = append(plans, shimsim.GenPlan(r, pool, cfgOff, "mode-off"))
	}
	for _, res := range shimsim.RunAll(pool, plans, 8) {
		res.Emit(c)
	}
	// the same history in both modes
	var two []*shimsim.Plan
	two = append(two, scenarios(r, pool, c.N(18, 360))...)
	for i, n := 0, c.N(40, 900); i < n; i++ {
		two = append(two, shimsim.GenPlan(r, pool, cfgOn, "two-modes"))
	}
	for _, p := range two {
		p.Class = "two-modes:" + p.Class
		certs, err := p.Mint(pool)
		if err != nil {
			c.Native("harness: cannot mint: "+err.Error(), p.Class)
			continue
		}
		up := p.RunWith(pool, certs, false)
		no := p.RunWith(pool, certs, true)
		shimsim.EmitTwo(c, up, no)
	}
}
