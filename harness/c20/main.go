// Correspondence harness for C20: waiting on a message code.
//
// A real yubiagent server (remote mode) over a key-ring agent on a unix socket;
// every client connection is served by its own yubiagent.ServeAgent goroutine.
// Choreographies of client events (wait / request) are played one event at a
// time; an event has settled when every started Wait call is either parked on
// its condition variable (counted with the verif hook VerifWaiters) or has
// returned to its client.  Observed: per event, which waiting clients returned.
package main

import (
	"encoding/binary"
	"fmt"
	"io"
	"math/rand"
	"net"
	"os"
	"path/filepath"
	"reflect"
	"runtime"
	"sort"
	"strings"
	"sync"
	"sync/atomic"
	"time"

	"github.com/theparanoids/ysshra/agent/shimagent"
	"github.com/theparanoids/ysshra/agent/yubiagent"
	"golang.org/x/crypto/ssh/agent"
	"verifharness/core"
)

func main() {
	core.Main("C20", &core.Driver{
		Imports:  "From Verif Require Import Lib.Base Model.WaitCond Model.C20Check.",
		CheckFn:  "C20Check.check",
		ClassFn:  "C20Check.classify",
		CaseType: "C20Check.case",
		Run:      runC20,
	})
}

const tableCodes = 64 // codes whose condition variables are polled (the table has 40)

type cev struct {
	wait bool
	w    int  // waiter id (wait events)
	code byte // message code
	body int  // requests: 0 = the minimal frame [code 0 0 0 0]; n > 0 = variant n of a well-formed request of this code
}

func sstr(b []byte, s string) []byte {
	b = append(b, byte(len(s)>>24), byte(len(s)>>16), byte(len(s)>>8), byte(len(s)))
	return append(b, s...)
}

// wfBody: a well-formed request with this code, as the standard clients and client.AddSmartcardKey write them
// (variant selects the optional tail).  Codes without a defined body get the bare code.
func wfBody(code byte, variant int) []byte {
	b := []byte{code}
	blob := sstr(sstr(nil, "ssh-ed25519"), string(make([]byte, 32)))
	switch code {
	case 13: // sign request: key blob, data, flags
		b = sstr(sstr(b, string(blob)), "data")
		b = append(b, 0, 0, 0, byte(variant%3))
	case 17, 25: // add identity (constrained): type, public, private, comment [, constraints]
		b = sstr(sstr(sstr(sstr(b, "ssh-ed25519"), string(make([]byte, 32))), string(make([]byte, 64))), "comment")
		if code == 25 && variant%2 == 1 {
			b = append(b, 1, 0, 0, 0, 60)
		}
	case 18: // remove identity: key blob
		b = sstr(b, string(blob))
	case 20, 21, 26: // smartcard key: reader id, PIN [, constraints]
		b = sstr(sstr(b, "reader"), "123456")
		if code == 26 {
			switch variant % 4 {
			case 2:
				b = append(b, 1, 0, 0, 0, 60) // lifetime
			case 3:
				b = append(b, 2) // confirm before use
			case 0:
				b = append(b, 1, 0, 0, 0, 60, 2)
			}
		}
	case 27: // extension
		b = sstr(b, "query")
	}
	return b
}

func (e cev) gallina() string {
	if e.wait {
		return core.GApp("CWait", core.GN(uint64(e.w)), core.GN(uint64(e.code)))
	}
	return core.GApp("CReq", core.GN(uint64(e.code)))
}
func (e cev) String() string {
	if e.wait {
		return fmt.Sprintf("wait(w%d,code %d)", e.w, e.code)
	}
	if e.body > 0 {
		return fmt.Sprintf("request(code %d, well-formed body %x)", e.code, wfBody(e.code, e.body)[1:])
	}
	return fmt.Sprintf("request(code %d)", e.code)
}

// world is one server with its underlying agent.
type world struct {
	dir    string
	ln     net.Listener
	srv    yubiagent.YubiAgent
	shim   *shimagent.Server
	wg     sync.WaitGroup
	mu     sync.Mutex
	panics []string
	conns  []net.Conn
}

func newWorld() (*world, error) { return newWorldMode(true) }

// localMode: the agents of the next choreographies are built for a locally attached token (NewServer(addr, false)).
var localMode bool

// findShim looks for the *shimagent.Server inside whatever the yubiagent server is made of (it may be wrapped).
func findShim(v reflect.Value, depth int) *shimagent.Server {
	if depth > 6 || !v.IsValid() {
		return nil
	}
	switch v.Kind() {
	case reflect.Interface, reflect.Ptr:
		if v.IsNil() {
			return nil
		}
		if v.CanInterface() {
			if s, ok := v.Interface().(*shimagent.Server); ok {
				return s
			}
		}
		return findShim(v.Elem(), depth+1)
	case reflect.Struct:
		for i := 0; i < v.NumField(); i++ {
			f := v.Field(i)
			if !f.CanInterface() {
				continue
			}
			if s := findShim(f, depth+1); s != nil {
				return s
			}
		}
	}
	return nil
}

func newWorldMode(remote bool) (*world, error) {
	if localMode {
		remote = false
	}
	dir, err := os.MkdirTemp("", "verif-c20-")
	if err != nil {
		return nil, err
	}
	w := &world{dir: dir}
	sock := filepath.Join(dir, "agent.sock")
	ln, err := net.Listen("unix", sock)
	if err != nil {
		os.RemoveAll(dir)
		return nil, err
	}
	w.ln = ln
	keyring := agent.NewKeyring()
	go func() {
		for {
			c, err := ln.Accept()
			if err != nil {
				return
			}
			go func() { _ = agent.ServeAgent(keyring, c); c.Close() }()
		}
	}()
	if !remote {
		// a locally attached token needs the PIV tool on PATH: a stand-in that lists one slot
		tool := filepath.Join(dir, "bin")
		if err := os.MkdirAll(tool, 0o755); err == nil {
			_ = os.WriteFile(filepath.Join(tool, "yubico-piv-tool"), []byte("#!/bin/sh\necho 'Slot 9a:'\nexit 0\n"), 0o755)
			if !strings.Contains(os.Getenv("PATH"), tool) {
				os.Setenv("PATH", tool+string(os.PathListSeparator)+os.Getenv("PATH"))
			}
		}
	}
	srv, err := yubiagent.NewServer(sock, remote)
	if err != nil {
		w.close()
		return nil, err
	}
	w.srv = srv
	// the shim is somewhere inside the concrete server (the exported field ShimAgent in the pinned source)
	shim := findShim(reflect.ValueOf(srv), 0)
	if shim == nil {
		w.close()
		return nil, fmt.Errorf("no *shimagent.Server found inside %T", srv)
	}
	w.shim = shim
	return w, nil
}

// connect opens one client connection served by its own ServeAgent goroutine.
func (w *world) connect() (yubiagent.YubiAgent, net.Conn, error) {
	cc, sc := net.Pipe()
	w.mu.Lock()
	w.conns = append(w.conns, cc, sc)
	w.mu.Unlock()
	w.wg.Add(1)
	go func() {
		defer w.wg.Done()
		if p, msg := core.Guard(func() { _ = yubiagent.ServeAgent(w.srv, sc) }); p {
			w.mu.Lock()
			w.panics = append(w.panics, msg)
			w.mu.Unlock()
		}
		sc.Close()
	}()
	cl, err := yubiagent.NewClientFromConn(cc)
	return cl, cc, err
}

func (w *world) parked() int {
	n := 0
	for c := 0; c < tableCodes; c++ {
		n += w.shim.VerifWaiters(byte(c))
	}
	return n
}

func (w *world) close() {
	if w.shim != nil {
		// release leftovers (twice: a waiter may have been between request and registration)
		for round := 0; round < 3; round++ {
			for c := 0; c < 256; c++ {
				core.Guard(func() { _ = w.shim.Broadcast(byte(c)) })
			}
			time.Sleep(5 * time.Millisecond)
		}
	}
	w.mu.Lock()
	for _, c := range w.conns {
		c.Close()
	}
	w.mu.Unlock()
	done := make(chan struct{})
	go func() { w.wg.Wait(); close(done) }()
	select {
	case <-done:
	case <-time.After(3 * time.Second):
	}
	if w.srv != nil {
		core.Guard(func() { _ = w.srv.Close() })
	}
	if w.ln != nil {
		w.ln.Close()
	}
	os.RemoveAll(w.dir)
}

type waiter struct {
	id   int
	done chan error
	conn yubiagent.YubiAgent
}

// play runs one choreography; returns per event the sorted ids of the waiters
// whose Wait returned while the event settled.
func play(pr *rand.Rand, w *world, evs []cev) (obs [][]int, problems []string) {
	started := 0
	var waiters []*waiter
	returned := map[int]bool{}
	var idle []yubiagent.YubiAgent // connections of released waiters: reusable for requests
	persistent, _, err := w.connect()
	if err != nil {
		return nil, []string{"connect: " + err.Error()}
	}
	settle := func() []int {
		deadline := time.Now().Add(4 * time.Second)
		got := []int{}
		for {
			for _, wt := range waiters {
				if returned[wt.id] {
					continue
				}
				select {
				case err := <-wt.done:
					returned[wt.id] = true
					got = append(got, wt.id)
					idle = append(idle, wt.conn)
					if err != nil {
						problems = append(problems, fmt.Sprintf("client Wait of w%d returned error %q", wt.id, err.Error()))
					}
				default:
				}
			}
			if w.parked()+len(returned) == started {
				// stable: look once more for a return that raced with the count
				time.Sleep(2 * time.Millisecond)
				if w.parked()+len(returned) == started {
					break
				}
			}
			if time.Now().After(deadline) {
				problems = append(problems, fmt.Sprintf("did not settle: %d started, %d parked, %d returned", started, w.parked(), len(returned)))
				break
			}
			time.Sleep(500 * time.Microsecond)
		}
		// drain returns that arrived in the last instant
		for _, wt := range waiters {
			if !returned[wt.id] {
				select {
				case err := <-wt.done:
					returned[wt.id] = true
					got = append(got, wt.id)
					idle = append(idle, wt.conn)
					if err != nil {
						problems = append(problems, fmt.Sprintf("client Wait of w%d returned error %q", wt.id, err.Error()))
					}
				default:
				}
			}
		}
		sort.Ints(got)
		return got
	}
	for _, e := range evs {
		if e.wait {
			cl, _, err := w.connect()
			if err != nil {
				problems = append(problems, "connect: "+err.Error())
				obs = append(obs, nil)
				continue
			}
			wt := &waiter{id: e.w, done: make(chan error, 1), conn: cl}
			waiters = append(waiters, wt)
			started++
			code := e.code
			go func() { wt.done <- cl.Wait(code) }()
		} else {
			// which connection sends it: a throwaway one for frames that end the
			// service of their connection, otherwise the persistent requester or the
			// idle connection of an already released waiter
			req := []byte{e.code, 0, 0, 0, 0}
			var cl yubiagent.YubiAgent
			throwaway := (e.code == 31 || e.code == 35) && e.body == 0
			switch {
			case e.body > 0:
				req = wfBody(e.code, e.body)
				cl = persistent
			case throwaway:
				req = []byte{e.code}
				cl, _, err = w.connect()
				if err != nil {
					problems = append(problems, "connect: "+err.Error())
					obs = append(obs, nil)
					continue
				}
			case len(idle) > 0 && pr.Intn(2) == 0:
				cl = idle[pr.Intn(len(idle))]
			default:
				cl = persistent
			}
			replied := make(chan struct{})
			go func() { _, _ = cl.Forward(req); close(replied) }()
			select {
			case <-replied:
			case <-time.After(4 * time.Second):
				problems = append(problems, fmt.Sprintf("request with code %d got no reply", e.code))
			}
		}
		obs = append(obs, settle())
	}
	return obs, problems
}

func gObs(obs [][]int) string {
	var rows []string
	for _, o := range obs {
		var ids []string
		for _, id := range o {
			ids = append(ids, core.GN(uint64(id)))
		}
		rows = append(rows, core.GList(ids))
	}
	return core.GList(rows)
}

func runSched(c *core.Ctx, class string, evs []cev) {
	// choices made while playing do not consume the generator's stream, so that a
	// single index replays the same choreography
	pr := rand.New(rand.NewSource(c.Seed*1000003 + int64(c.NextIndex())))
	if c.Skip() {
		return
	}
	w, err := newWorld()
	if err != nil {
		c.Native("cannot start the yubiagent server: "+err.Error(), nil)
		return
	}
	var obs [][]int
	var problems []string
	done := make(chan struct{})
	go func() { obs, problems = play(pr, w, evs); close(done) }()
	select {
	case <-done:
	case <-time.After(60 * time.Second):
		c.Native("choreography hung", fmt.Sprint(evs))
		w.close()
		return
	}
	w.close()
	evText := fmt.Sprint(evs)
	if len(evText) > 700 {
		evText = evText[:700] + " ..."
	}
	var obsText interface{} = obs
	if len(obs) > 30 {
		obsText = fmt.Sprintf("%v ... (%d events)", obs[:30], len(obs))
	}
	human := map[string]interface{}{"events": evText, "released_per_event": obsText}
	if len(w.panics) > 0 {
		c.Native("panic while serving a connection: "+w.panics[0], human)
		return
	}
	if len(problems) > 0 {
		human["problems"] = problems
		c.Stat("sched_with_problems")
	}
	var gev []string
	for _, e := range evs {
		gev = append(gev, e.gallina())
	}
	c.Case(class, core.GApp("CSched", core.GList(gev), gObs(obs)), human)
}

// rangeCase: direct Wait(code) then Broadcast(code) on the shim.
func rangeCase(c *core.Ctx, w *world, code byte) {
	if c.Skip() {
		return
	}
	noPanic := true
	ret := make(chan struct{})
	go func() {
		if p, _ := core.Guard(func() { _ = w.shim.Wait(code) }); p {
			noPanic = false
		}
		close(ret)
	}()
	returnedAtOnce, parked := false, false
	deadline := time.Now().Add(2 * time.Second)
	for time.Now().Before(deadline) {
		select {
		case <-ret:
			returnedAtOnce = true
		default:
		}
		if returnedAtOnce {
			break
		}
		if w.shim.VerifWaiters(code) >= 1 {
			parked = true
			break
		}
		time.Sleep(200 * time.Microsecond)
	}
	if p, _ := core.Guard(func() { _ = w.shim.Broadcast(code) }); p {
		noPanic = false
	}
	released := false
	if !returnedAtOnce {
		select {
		case <-ret:
			released = true
		case <-time.After(2 * time.Second):
		}
		if !released { // unblock for good
			for i := 0; i < 3 && !released; i++ {
				core.Guard(func() { _ = w.shim.Broadcast(code) })
				select {
				case <-ret:
				case <-time.After(200 * time.Millisecond):
				}
			}
		}
	}
	_ = parked
	class := "range-in"
	if code >= 40 {
		class = "range-out"
	}
	c.Case(class, core.GApp("CRange", core.GN(uint64(code)), core.GBool(returnedAtOnce), core.GBool(noPanic), core.GBool(released)),
		map[string]interface{}{"code": code, "wait_returned_at_once": returnedAtOnce, "no_panic": noPanic, "released_by_broadcast": released})
}

// stormCase: a waiter is parked on the code; while many other clients are just registering on the same code (the
// condition variable's lock is busy most of the time), one request with the code arrives.  The waiter parked before
// the request was sent must be released by it.
func stormCase(c *core.Ctx, code byte, trial int) {
	w, err := newWorld()
	if err != nil {
		c.Native("cannot start the yubiagent server: "+err.Error(), nil)
		return
	}
	defer w.close()
	input := map[string]interface{}{"code": code, "trial": trial}
	req, _, err := w.connect()
	if err != nil {
		c.Native("cannot connect: "+err.Error(), input)
		return
	}
	aDone := make(chan struct{})
	go func() { core.Guard(func() { _ = w.shim.Wait(code) }); close(aDone) }()
	deadline := time.Now().Add(2 * time.Second)
	for w.shim.VerifWaiters(code) < 1 && time.Now().Before(deadline) {
		time.Sleep(100 * time.Microsecond)
	}
	if w.shim.VerifWaiters(code) < 1 {
		c.Native("a Wait call did not park within two seconds", input)
		return
	}
	var stop int32
	var spawned int64
	var sg sync.WaitGroup
	for g := 0; g < 24; g++ {
		sg.Add(1)
		go func() {
			defer sg.Done()
			for atomic.LoadInt32(&stop) == 0 && atomic.AddInt64(&spawned, 1) < 40000 {
				go func() { core.Guard(func() { _ = w.shim.Wait(code) }) }()
				runtime.Gosched()
			}
		}()
	}
	time.Sleep(time.Duration(500+trial*137%1500) * time.Microsecond)
	replied := make(chan struct{})
	go func() { _, _ = req.Forward([]byte{code, 0, 0, 0, 0}); close(replied) }()
	select {
	case <-replied:
	case <-time.After(5 * time.Second):
	}
	atomic.StoreInt32(&stop, 1)
	sg.Wait()
	select {
	case <-aDone:
		c.NativeCheck(1)
	case <-time.After(2 * time.Second):
		c.Native(fmt.Sprintf("a client parked on code %d before a request with that code was sent was not released by it (other clients were registering on the same code at that moment)", code), input)
	}
	// let everybody go
	for i := 0; i < 200 && w.shim.VerifWaiters(code) > 0; i++ {
		_ = w.shim.Broadcast(code)
		time.Sleep(2 * time.Millisecond)
	}
}

// pipelinedCase: a client writes several request frames at once (one Write), as a pipelining client or a proxy that
// coalesces does.  Every one of them is a request received by the agent: a client waiting on the code of the second
// or third frame is released, whatever kind of request came before it on the same connection.
func pipelinedCase(c *core.Ctx, first, code byte, third bool) {
	w, err := newWorld()
	if err != nil {
		c.Native("cannot start the yubiagent server: "+err.Error(), nil)
		return
	}
	defer w.close()
	input := map[string]interface{}{"first_frame_code": first, "waited_code": code, "three_frames": third}
	_, raw, err := w.connect()
	if err != nil {
		c.Native("cannot connect: "+err.Error(), input)
		return
	}
	wcl, _, err := w.connect()
	if err != nil {
		c.Native("cannot connect: "+err.Error(), input)
		return
	}
	done := make(chan error, 1)
	go func() { done <- wcl.Wait(code) }()
	deadline := time.Now().Add(2 * time.Second)
	for w.shim.VerifWaiters(code) < 1 && time.Now().Before(deadline) {
		time.Sleep(100 * time.Microsecond)
	}
	if w.shim.VerifWaiters(code) < 1 {
		c.Native("a Wait call did not park within two seconds", input)
		return
	}
	frame := func(b []byte) []byte {
		f := make([]byte, 4+len(b))
		binary.BigEndian.PutUint32(f, uint32(len(b)))
		copy(f[4:], b)
		return f
	}
	body := func(code byte) []byte {
		if b := wfBody(code, 1); b != nil {
			return b
		}
		return []byte{code, 0, 0, 0, 0}
	}
	stream := append(frame(body(first)), frame(body(code))...)
	nframes := 2
	if third {
		stream = append(frame(body(first)), stream...)
		nframes = 3
	}
	go func() { _, _ = raw.Write(stream) }()
	// read the replies so that the server is never blocked on a write
	go func() {
		var hdr [4]byte
		for i := 0; i < nframes; i++ {
			raw.SetReadDeadline(time.Now().Add(3 * time.Second))
			if _, err := io.ReadFull(raw, hdr[:]); err != nil {
				return
			}
			n := binary.BigEndian.Uint32(hdr[:])
			if n > 1<<20 {
				return
			}
			if _, err := io.ReadFull(raw, make([]byte, n)); err != nil {
				return
			}
		}
	}()
	select {
	case <-done:
		c.NativeCheck(1)
	case <-time.After(3 * time.Second):
		c.Native(fmt.Sprintf("a client waiting on code %d was not released by a request with that code that arrived in one write behind a request with code %d", code, first), input)
		_ = w.shim.Broadcast(code)
	}
}

// twoAgentsCase: two agents live in one process.  A client waiting on a code of the first is released only by a request
// received by the first agent - a request with the same code received by the second one does not concern it.
func twoAgentsCase(c *core.Ctx, code byte) {
	w1, err := newWorld()
	if err != nil {
		c.Native("cannot start the yubiagent server: "+err.Error(), nil)
		return
	}
	defer w1.close()
	w2, err := newWorld()
	if err != nil {
		c.Native("cannot start a second yubiagent server: "+err.Error(), nil)
		return
	}
	defer w2.close()
	input := map[string]interface{}{"code": code}
	done := make(chan struct{})
	go func() { core.Guard(func() { _ = w1.shim.Wait(code) }); close(done) }()
	deadline := time.Now().Add(2 * time.Second)
	for w1.shim.VerifWaiters(code) < 1 && time.Now().Before(deadline) {
		time.Sleep(100 * time.Microsecond)
	}
	req2, _, err := w2.connect()
	if err != nil {
		c.Native("cannot connect: "+err.Error(), input)
		return
	}
	_, _ = req2.Forward([]byte{code, 0, 0, 0, 0})
	_ = w2.shim.Broadcast(code)
	select {
	case <-done:
		c.Native(fmt.Sprintf("a client waiting on code %d of one agent was released by a request received by ANOTHER agent of the same process", code), input)
		return
	case <-time.After(150 * time.Millisecond):
		c.NativeCheck(1)
	}
	req1, _, err := w1.connect()
	if err != nil {
		c.Native("cannot connect: "+err.Error(), input)
		return
	}
	_, _ = req1.Forward([]byte{code, 0, 0, 0, 0})
	select {
	case <-done:
		c.NativeCheck(1)
	case <-time.After(2 * time.Second):
		c.Native(fmt.Sprintf("a client waiting on code %d was not released by a request with that code received by its own agent (a second agent exists in the process)", code), input)
		_ = w1.shim.Broadcast(code)
	}
}

// agedCase: after n earlier requests with the code (n-1 of them delivered straight to the shim's Broadcast, the
// way ServeAgent delivers every request's first byte, the last one through a client connection when the code
// is a listing request), a fresh waiter still parks, stays parked while other codes are requested, and is
// released by the next request with its code.
func agedCase(c *core.Ctx, n int, code byte) {
	w, err := newWorld()
	if err != nil {
		c.Native("cannot start the yubiagent server: "+err.Error(), nil)
		return
	}
	defer w.close()
	input := map[string]interface{}{"earlier_requests_with_the_code": n, "code": code}
	for i := 0; i < n-1; i++ {
		_ = w.shim.Broadcast(code)
	}
	req, _, err := w.connect()
	if err != nil {
		c.Native("cannot connect: "+err.Error(), input)
		return
	}
	if code == yubiagent.AgentMessageRequestIdentities {
		_, _ = req.List()
	} else {
		_ = w.shim.Broadcast(code)
	}
	cl, _, err := w.connect()
	if err != nil {
		c.Native("cannot connect: "+err.Error(), input)
		return
	}
	done := make(chan error, 1)
	go func() { done <- cl.Wait(code) }()
	deadline := time.Now().Add(3 * time.Second)
	for w.shim.VerifWaiters(code) == 0 && time.Now().Before(deadline) {
		select {
		case <-done:
			c.Native(fmt.Sprintf("Wait(%d) returned although no request with that code arrived after the waiter registered (the agent had seen %d earlier requests with the code)", code, n), input)
			return
		case <-time.After(2 * time.Millisecond):
		}
	}
	// other codes do not release it
	_ = w.shim.Broadcast(code ^ 1)
	select {
	case <-done:
		c.Native(fmt.Sprintf("Wait(%d) was released by a request with another code (after %d earlier requests)", code, n), input)
		return
	case <-time.After(60 * time.Millisecond):
	}
	if code == yubiagent.AgentMessageRequestIdentities {
		_, _ = req.List()
	} else {
		_ = w.shim.Broadcast(code)
	}
	select {
	case <-done:
		c.NativeCheck(1)
	case <-time.After(3 * time.Second):
		c.Native(fmt.Sprintf("Wait(%d) still blocked 3 s after the next request with its code (lost wake-up after %d earlier requests)", code, n), input)
	}
}

func runC20(c *core.Ctx) {
	r := c.Rng
	W := func(w int, code byte) cev { return cev{true, w, code, 0} }
	R := func(code byte) cev { return cev{false, 0, code, 0} }
	RB := func(code byte, variant int) cev { return cev{false, 0, code, variant} }

	// hand-written choreographies first
	runSched(c, "fixed", []cev{W(1, 11), W(2, 12), W(3, 11), R(13), W(4, 11), R(11), R(11), R(12)})
	runSched(c, "fixed", []cev{W(1, 35), W(2, 11), R(11), W(3, 35), R(35)})
	runSched(c, "fixed", []cev{W(1, 19), W(2, 19), W(3, 19), W(4, 19), W(5, 19), W(6, 19), W(7, 19), W(8, 19), R(18), R(20), R(19)})
	runSched(c, "fixed", []cev{W(1, 39), W(2, 40), W(3, 0), R(40), R(39), R(0), W(4, 255), R(255)})
	runSched(c, "fixed", []cev{W(1, 31), W(2, 34), R(31), R(32), R(33), R(34), W(3, 35), W(4, 35), W(5, 0)})
	// every out-of-range code through a client connection: returns at once
	for lo := 40; lo < 256; lo += 54 {
		var evs []cev
		for code := lo; code < lo+54 && code < 256; code++ {
			evs = append(evs, W(code, byte(code)))
		}
		runSched(c, "out-of-range-clients", evs)
	}

	// well-formed requests (what real clients send): one waiter on every code that has a request body, then one
	// well-formed request; only the waiter on that request's own code may return
	wfCodes := []byte{11, 13, 17, 18, 19, 20, 21, 25, 26, 27}
	for _, rc := range wfCodes {
		for variant := 1; variant <= 4; variant++ {
			if variant > 1 && rc != 26 && rc != 25 && rc != 13 {
				continue
			}
			var evs []cev
			for i, wc := range wfCodes {
				evs = append(evs, W(i+1, wc))
			}
			evs = append(evs, RB(rc, variant))
			for _, oc := range wfCodes {
				if r.Intn(2) == 0 {
					evs = append(evs, RB(oc, 1+r.Intn(4)))
				}
			}
			runSched(c, "well-formed-requests", evs)
		}
	}

	// seeded choreographies
	palette := []byte{0, 1, 5, 11, 13, 17, 18, 19, 20, 21, 22, 23, 25, 26, 27, 30, 31, 32, 33, 34, 35, 36, 38, 39}
	n := c.N(60, 1500)
	for i := 0; i < n; i++ {
		nw := 1 + r.Intn(8)
		ncodes := 1 + r.Intn(3)
		codes := make([]byte, ncodes)
		for j := range codes {
			codes[j] = palette[r.Intn(len(palette))]
		}
		if r.Intn(4) == 0 {
			codes[0] = 35
		}
		var evs []cev
		nextW := 1
		nev := nw + 2 + r.Intn(8)
		for len(evs) < nev {
			switch {
			case nextW <= nw && r.Intn(5) < 3:
				code := codes[r.Intn(len(codes))]
				if r.Intn(12) == 0 {
					code = byte(40 + r.Intn(216))
				}
				evs = append(evs, W(nextW, code))
				nextW++
			case r.Intn(3) == 0: // a request with a code nobody waits on
				evs = append(evs, R(palette[r.Intn(len(palette))]))
			case r.Intn(10) == 0:
				evs = append(evs, R(byte(40+r.Intn(216))))
			case r.Intn(4) == 0:
				evs = append(evs, RB(wfCodes[r.Intn(len(wfCodes))], 1+r.Intn(4)))
			default:
				evs = append(evs, R(codes[r.Intn(len(codes))]))
			}
		}
		// finish by requesting every code once so that "together" is exercised
		for _, code := range codes {
			if r.Intn(3) > 0 {
				evs = append(evs, R(code))
			}
		}
		runSched(c, fmt.Sprintf("random-%dw-%dcodes", nw, ncodes), evs)
	}

	// long-lived agents: the rule must not depend on how many requests with the code were seen before
	// (counters of 8 / 16 bits wrap at exactly these histories)
	for _, n := range []int{1, 255, 256, 257, 65535, 65536, 65537} {
		for _, code := range []byte{11, 39} {
			agedCase(c, n, code)
		}
	}

	// agents built for a locally attached token (the PIV tool on PATH) wait and release like the others
	localMode = true
	runSched(c, "local-token-agent", []cev{W(1, 11), W(2, 12), W(3, 11), R(19), R(11), W(4, 13), R(12), R(13)})
	runSched(c, "local-token-agent", []cev{W(1, 35), W(2, 20), RB(26, 1), RB(20, 1), R(35)})
	for _, code := range []byte{11, 0, 39} {
		agedCase(c, 1, code)
	}
	localMode = false

	// two agents in one process
	for _, code := range []byte{11, 13, 0, 39} {
		twoAgentsCase(c, code)
	}

	// a request arriving while other clients register on the same code
	// several frames in one write: each of them is a request received
	for i, pr := range [][2]byte{{11, 19}, {11, 11}, {19, 13}, {13, 18}, {32, 19}, {11, 32}, {27, 11}, {18, 17}, {25, 25}, {11, 35}, {22, 23}} {
		pipelinedCase(c, pr[0], pr[1], i%3 == 2)
	}

	for t, n := 0, c.N(12, 120); t < n; t++ {
		stormCase(c, core.Pick(r, byte(11), byte(13), byte(39), byte(0)), t)
	}

	// the range rule on all 256 codes, directly on the shim
	w, err := newWorld()
	if err != nil {
		c.Native("cannot start the yubiagent server: "+err.Error(), nil)
		// bin/check needs at least one case file
		c.Case("empty", core.GApp("CSched", "[]", "[]"), "no choreography could be played")
		return
	}
	for code := 0; code < 256; code++ {
		rangeCase(c, w, byte(code))
	}
	w.close()
}
