module verifharness

go 1.23.0

require (
	github.com/theparanoids/ysshra v0.0.0
	golang.org/x/crypto v0.35.0
)

replace github.com/theparanoids/ysshra => /repo
