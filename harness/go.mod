module verifharness

go 1.23.0

require (
	github.com/rs/zerolog v1.33.0
	github.com/theparanoids/crypki v1.20.7
	github.com/theparanoids/ysshra v0.0.0
	golang.org/x/crypto v0.35.0
	google.golang.org/grpc v1.70.0
	google.golang.org/protobuf v1.36.5
)

require (
	github.com/gabriel-vasile/mimetype v1.4.3 // indirect
	github.com/go-logr/logr v1.4.2 // indirect
	github.com/go-logr/stdr v1.2.2 // indirect
	github.com/go-playground/locales v0.14.1 // indirect
	github.com/go-playground/universal-translator v0.18.1 // indirect
	github.com/go-playground/validator/v10 v10.23.0 // indirect
	github.com/golang/mock v1.6.0 // indirect
	github.com/grpc-ecosystem/go-grpc-middleware v1.4.0 // indirect
	github.com/grpc-ecosystem/grpc-gateway/v2 v2.26.1 // indirect
	github.com/leodido/go-urn v1.4.0 // indirect
	github.com/mattn/go-colorable v0.1.13 // indirect
	github.com/mattn/go-isatty v0.0.19 // indirect
	github.com/mitchellh/mapstructure v1.5.0 // indirect
	go.opentelemetry.io/auto/sdk v1.1.0 // indirect
	go.opentelemetry.io/contrib/instrumentation/google.golang.org/grpc/otelgrpc v0.59.0 // indirect
	go.opentelemetry.io/otel v1.34.0 // indirect
	go.opentelemetry.io/otel/metric v1.34.0 // indirect
	go.opentelemetry.io/otel/trace v1.34.0 // indirect
	go.uber.org/multierr v1.11.0 // indirect
	golang.org/x/net v0.34.0 // indirect
	golang.org/x/sys v0.30.0 // indirect
	golang.org/x/text v0.22.0 // indirect
	google.golang.org/genproto/googleapis/api v0.0.0-20250204164813-702378808489 // indirect
	google.golang.org/genproto/googleapis/rpc v0.0.0-20250204164813-702378808489 // indirect
)

replace github.com/theparanoids/ysshra => /repo
