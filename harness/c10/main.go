// C10 harness: histories over every mix of plain keys (RSA, ECDSA P-256/P-384,
// Ed25519), certificates and in-memory hardware certificates, with raw
// requests of 0..64 KiB (plus one body and one reply just above the 16 MiB
// frame bound), against a healthy underlying agent and against one that fails:
// every fault kind (failure reply, malformed reply, reply of another type,
// oversized length prefix, closed connection; injected instead of or after
// executing the request) at every request index of every operation kind, and
// during construction in both modes.  Signatures are verified with
// ssh.PublicKey.Verify against every key of the pool; raw replies are compared
// byte for byte; a panic anywhere is a violation.
package main

import (
	"bytes"
	mrand "math/rand"

	"verifharness/core"
	"verifharness/shimsim"
)

func main() {
	core.Main("C10", &core.Driver{
		Imports:   "From Verif Require Import Lib.Base Lib.Json Model.KeyId Model.UAgent Model.Shim Model.ShimCheck Model.C10Check.",
		CheckFn:   "C10Check.check",
		ClassFn:   "C10Check.classify",
		CaseType:  "ShimCheck.case",
		ShardSize: 24,
		Run:       run,
	})
}

var kinds = []shimsim.FKind{shimsim.FFail, shimsim.FMalformed, shimsim.FOversize, shimsim.FClose, shimsim.FWrongType}

func fault(k shimsim.FKind, exec bool, n int) shimsim.Fault {
	f := shimsim.Fault{Exec: exec, Kind: k}
	if k == shimsim.FMalformed {
		f.Body = [][]byte{{}, {99}, {12, 0}, {14, 0, 0}, {12, 0, 0, 0, 1}}[n%5]
	}
	return f
}

// enumeration: a fixed situation (two hardware certificates over two held keys,
// one expired certificate in memory and one in the agent so that filter has
// removals to make), then one operation with one fault at one of its request
// indices, then a look at what is left.
// truncatedReplies: the underlying agent dies in the middle of its reply to a raw request - after the length prefix,
// in the body, one byte before the end - for replies below and above 64 KiB.  Forward must report an error.
func truncatedReplies(r *mrand.Rand, pool *shimsim.Pool) []*shimsim.Plan {
	var out []*shimsim.Plan
	op := func(k shimsim.OpKind, b uint64) *shimsim.Op { return &shimsim.Op{Kind: k, Blob: b} }
	nk := len(pool.Keys)
	id := uint64(1)
	for _, size := range []int{10, 4096, 65536, 65537, 70000, 200000} {
		for _, cut := range []int{1, 2, size / 2, size - 1, size} {
			if cut < 1 {
				continue
			}
			k := uint64(1 + r.Intn(nk))
			p := &shimsim.Plan{Class: "reply-cut-short", NoUp: r.Intn(2) == 0, Data: map[uint64][]byte{1: []byte("data-1")}}
			t, kk := shimsim.GenKeyID(r)
			c := shimsim.CertSpec{ID: pool.ReserveID(), KeyID: k, Window: "current", KidText: t, KidKind: kk}
			p.Certs = []shimsim.CertSpec{c}
			p.Initial = []uint64{k}
			body := make([]byte, 8)
			r.Read(body)
			body[0] |= 0x80
			rep := make([]byte, size)
			r.Read(rep)
			fw := &shimsim.Op{Kind: shimsim.OpForward, RawID: id, RawBody: body, RawRep: rep,
				Faults: map[int]shimsim.Fault{0: {Kind: shimsim.FClose, Exec: true, Partial: cut}}}
			id++
			p.Ops = []*shimsim.Op{op(shimsim.OpAddHard, c.ID), fw, op(shimsim.OpList, 0)}
			out = append(out, p)
		}
	}
	return out
}

// hiddenAndHardware: in no-upstream mode the underlying agent holds a key and, as a separate identity, a YSSHCA
// certificate over it (hidden from listings); the very same certificate is then accepted as a hardware certificate
// - before or after a listing has seen it - and must be listed once and sign under the plain key.
func hiddenAndHardware(r *mrand.Rand, pool *shimsim.Pool, n int) []*shimsim.Plan {
	var out []*shimsim.Plan
	op := func(k shimsim.OpKind, b uint64) *shimsim.Op { return &shimsim.Op{Kind: k, Blob: b} }
	nk := len(pool.Keys)
	for i := 0; i < n; i++ {
		k := uint64(1 + r.Intn(nk))
		p := &shimsim.Plan{Class: "hidden-certificate-also-hardware", NoUp: i%4 != 3, Data: map[uint64][]byte{1: []byte("data-1"), 2: []byte("data-2")}}
		var t, kk string
		for {
			t, kk = shimsim.GenKeyID(r)
			if kk[:3] == "yss" {
				break
			}
		}
		y := shimsim.CertSpec{ID: pool.ReserveID(), KeyID: k, Window: core.Pick(r, "current", "forever"), KidText: t, KidKind: kk}
		p.Certs = []shimsim.CertSpec{y}
		sign := func(d uint64) *shimsim.Op { return &shimsim.Op{Kind: shimsim.OpSign, Blob: y.ID, DataID: d} }
		switch i % 3 {
		case 0: // the certificate is there at construction
			p.Initial = []uint64{k, y.ID}
			p.Ops = []*shimsim.Op{op(shimsim.OpAddHard, y.ID), sign(1), op(shimsim.OpList, 0), op(shimsim.OpSigners, 0), op(shimsim.OpRemove, y.ID), op(shimsim.OpList, 0)}
		case 1: // it arrives later and a listing sees it first
			p.Initial = []uint64{k}
			p.Ops = []*shimsim.Op{op(shimsim.OpDirectAdd, y.ID), op(core.Pick(r, shimsim.OpList, shimsim.OpSigners), 0), op(shimsim.OpAddHard, y.ID), sign(1), op(shimsim.OpList, 0), sign(2)}
		default: // accepted first, seen by a listing afterwards
			p.Initial = []uint64{k}
			p.Ops = []*shimsim.Op{op(shimsim.OpDirectAdd, y.ID), op(shimsim.OpAddHard, y.ID), sign(1), op(shimsim.OpSigners, 0), sign(2), op(shimsim.OpList, 0)}
		}
		out = append(out, p)
	}
	return out
}

func enumeration(r *mrand.Rand, pool *shimsim.Pool, full bool) []*shimsim.Plan {
	var out []*shimsim.Plan
	op := func(k shimsim.OpKind, b uint64) *shimsim.Op { return &shimsim.Op{Kind: k, Blob: b} }
	type target struct {
		name string
		mk   func(c, c2, e, a uint64, k, k2 uint64) *shimsim.Op
	}
	targets := []target{
		{"list", func(c, c2, e, a, k, k2 uint64) *shimsim.Op { return op(shimsim.OpList, 0) }},
		{"signers", func(c, c2, e, a, k, k2 uint64) *shimsim.Op { return op(shimsim.OpSigners, 0) }},
		{"sign-hardware-cert", func(c, c2, e, a, k, k2 uint64) *shimsim.Op {
			return &shimsim.Op{Kind: shimsim.OpSign, Blob: c, DataID: 1}
		}},
		{"sign-agent-key", func(c, c2, e, a, k, k2 uint64) *shimsim.Op {
			return &shimsim.Op{Kind: shimsim.OpSign, Blob: k2, DataID: 2, Flags: 2}
		}},
		{"sign-agent-cert", func(c, c2, e, a, k, k2 uint64) *shimsim.Op {
			return &shimsim.Op{Kind: shimsim.OpSign, Blob: a, DataID: 1}
		}},
		{"add", func(c, c2, e, a, k, k2 uint64) *shimsim.Op { return op(shimsim.OpAdd, c2) }},
		{"add-hardware-cert", func(c, c2, e, a, k, k2 uint64) *shimsim.Op { return op(shimsim.OpAddHard, c2) }},
		{"remove-hardware-cert", func(c, c2, e, a, k, k2 uint64) *shimsim.Op { return op(shimsim.OpRemove, c) }},
		{"remove-agent-key", func(c, c2, e, a, k, k2 uint64) *shimsim.Op { return op(shimsim.OpRemove, k2) }},
		{"remove-all", func(c, c2, e, a, k, k2 uint64) *shimsim.Op { return op(shimsim.OpRemoveAll, 0) }},
		{"lock", func(c, c2, e, a, k, k2 uint64) *shimsim.Op {
			return &shimsim.Op{Kind: shimsim.OpLock, Pass: []byte("pw")}
		}},
		{"forward", func(c, c2, e, a, k, k2 uint64) *shimsim.Op {
			return &shimsim.Op{Kind: shimsim.OpForward, RawID: 1, RawBody: []byte{0x90, 1, 2, 3}, RawRep: []byte{6, 7, 8}}
		}},
	}
	nk := len(pool.Keys)
	n := 0
	for _, tg := range targets {
		for _, fk := range kinds {
			for _, exec := range []bool{false, true} {
				for idx := 0; idx < 4; idx++ {
					if !full && (idx > 1 || (exec && fk != shimsim.FFail)) {
						continue
					}
					n++
					k := uint64(1 + r.Intn(nk))
					k2 := uint64(1 + (int(k)+r.Intn(nk-1))%nk)
					p := &shimsim.Plan{Class: "fault-enumeration-" + tg.name, NoUp: r.Intn(2) == 0,
						Data: map[uint64][]byte{1: []byte("data-1"), 2: []byte("data-2"), 3: []byte("data-3")}}
					kid := func() (string, string) { return shimsim.GenKeyID(r) }
					t1, k1 := kid()
					t2, kk2 := kid()
					t3, k3 := kid()
					t4, k4 := kid()
					c := shimsim.CertSpec{ID: pool.ReserveID(), KeyID: k, Window: core.Pick(r, "current", "forever"), KidText: t1, KidKind: k1}
					c2 := shimsim.CertSpec{ID: pool.ReserveID(), KeyID: k2, Window: "current", KidText: t2, KidKind: kk2}
					e := shimsim.CertSpec{ID: pool.ReserveID(), KeyID: k, Window: core.Pick(r, "past", "future"), KidText: t3, KidKind: k3}
					a := shimsim.CertSpec{ID: pool.ReserveID(), KeyID: k2, Window: core.Pick(r, "current", "past"), KidText: t4, KidKind: k4}
					p.Certs = []shimsim.CertSpec{c, c2, e, a}
					p.Initial = []uint64{k, k2, a.ID, e.ID}
					target := tg.mk(c.ID, c2.ID, e.ID, a.ID, k, k2)
					target.Faults = map[int]shimsim.Fault{idx: fault(fk, exec, n)}
					p.Ops = []*shimsim.Op{op(shimsim.OpAddHard, c.ID), op(shimsim.OpAddHard, e.ID), target, op(shimsim.OpList, 0),
						{Kind: shimsim.OpSign, Blob: c.ID, DataID: 3}, op(shimsim.OpSigners, 0), op(shimsim.OpAddHard, c2.ID), op(shimsim.OpList, 0)}
					out = append(out, p)
				}
			}
		}
	}
	return out
}

// construction: shimagent.New in both modes against an agent that fails its
// first request (the initial list of no-upstream mode; with the mode off no
// request is made, the fault then hits the first operation).
func construction(r *mrand.Rand, pool *shimsim.Pool) []*shimsim.Plan {
	var out []*shimsim.Plan
	n := 0
	for _, noup := range []bool{true, false} {
		for _, fk := range kinds {
			for _, exec := range []bool{false, true} {
				n++
				t, kk := shimsim.GenKeyID(r)
				c := shimsim.CertSpec{ID: pool.ReserveID(), KeyID: 1, Window: "current", KidText: t, KidKind: kk}
				p := &shimsim.Plan{Class: "construction-fault", NoUp: noup, Certs: []shimsim.CertSpec{c}, Initial: []uint64{1, 2, c.ID},
					CtorFault: map[int]shimsim.Fault{0: fault(fk, exec, n)}, Data: map[uint64][]byte{1: []byte("d")}}
				p.Ops = []*shimsim.Op{{Kind: shimsim.OpList}, {Kind: shimsim.OpAddHard, Blob: c.ID}, {Kind: shimsim.OpSign, Blob: c.ID, DataID: 1}, {Kind: shimsim.OpList}}
				out = append(out, p)
			}
		}
	}
	return out
}

// frames: raw requests around the 16 MiB bound.
func frames(pool *shimsim.Pool) []*shimsim.Plan {
	big := bytes.Repeat([]byte{0xff}, 16<<20+1)
	edge := bytes.Repeat([]byte{0xfe}, 16<<20)
	mk := func(class string, ops ...*shimsim.Op) *shimsim.Plan {
		return &shimsim.Plan{Class: class, Initial: []uint64{1, 5}, Data: map[uint64][]byte{1: []byte("d")},
			Ops: append(ops, &shimsim.Op{Kind: shimsim.OpList}, &shimsim.Op{Kind: shimsim.OpSign, Blob: 5, DataID: 1})}
	}
	return []*shimsim.Plan{
		mk("frame-body-above-bound", &shimsim.Op{Kind: shimsim.OpForward, RawID: 1, RawBody: big, RawRep: []byte{1}}),
		mk("frame-body-at-bound", &shimsim.Op{Kind: shimsim.OpForward, RawID: 1, RawBody: edge, RawRep: []byte{1, 2}}),
		mk("frame-reply-at-bound", &shimsim.Op{Kind: shimsim.OpForward, RawID: 1, RawBody: []byte{0x81}, RawRep: edge}),
		mk("frame-reply-above-bound", &shimsim.Op{Kind: shimsim.OpForward, RawID: 1, RawBody: []byte{0x82}, RawRep: big},
			&shimsim.Op{Kind: shimsim.OpForward, RawID: 2, RawBody: []byte{0x83}, RawRep: []byte{9}}),
		mk("frame-empty", &shimsim.Op{Kind: shimsim.OpForward, RawID: 1, RawBody: []byte{}, RawRep: []byte{}}),
	}
}

func run(c *core.Ctx) {
	r := c.Rng
	pool, err := shimsim.NewPool()
	if err != nil {
		c.Native("harness: key pool: "+err.Error(), nil)
		return
	}
	w := map[shimsim.OpKind]int{
		shimsim.OpList: 14, shimsim.OpSigners: 8, shimsim.OpSign: 18, shimsim.OpAdd: 10, shimsim.OpAddHard: 18, shimsim.OpRemove: 10,
		shimsim.OpRemoveAll: 1, shimsim.OpForward: 8, shimsim.OpDirectAdd: 6, shimsim.OpDirectRemove: 6, shimsim.OpLock: 1, shimsim.OpUnlock: 2, shimsim.OpClose: 1}
	wins := []string{"current", "current", "current", "forever", "epoch-forever", "past", "future", "zero"}
	healthy := &shimsim.Cfg{MinOps: 6, MaxOps: 40, Weights: w, Windows: wins}
	failing := &shimsim.Cfg{MinOps: 6, MaxOps: 40, Weights: w, Windows: wins, FaultPct: 14}
	var plans []*shimsim.Plan
	plans = append(plans, frames(pool)...)
	plans = append(plans, construction(r, pool)...)
	plans = append(plans, enumeration(r, pool, c.Tier == "thorough")...)
	plans = append(plans, truncatedReplies(r, pool)...)
	plans = append(plans, hiddenAndHardware(r, pool, c.N(12, 120))...)
	plans = append(plans, shimsim.ScenarioPlans(r, pool, c.N(16, 200))...)
	for i, n := 0, c.N(60, 1500); i < n; i++ {
		plans = append(plans, shimsim.GenPlan(r, pool, healthy, "healthy-agent"))
	}
	for i, n := 0, c.N(60, 1500); i < n; i++ {
		plans = append(plans, shimsim.GenPlan(r, pool, failing, "failing-agent"))
	}
	for _, res := range shimsim.RunAll(pool, plans, 8) {
		res.Emit(c)
	}
}
