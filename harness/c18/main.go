// C18 correspondence harness: the behavioural matrix of the RA's TLS client
// (real crypki.NewSigner / Sign) against real TLS servers: CA bundle x server
// identity x protocol range x client-authentication mode x position among
// genuine endpoints.  Observed at the servers: TCP connection, handshake
// outcome, negotiated version, client certificate presented, request
// received; at the client: the result of Sign.  Emitted as Coq cases for
// Model/C18Check.v (decision model under the regenerated configuration).
package main

import (
	"bytes"
	"context"
	"crypto/tls"
	"crypto/x509"
	"fmt"
	"io"
	"log"
	"os"
	"path/filepath"
	"strings"
	"time"

	"github.com/rs/zerolog"
	"github.com/theparanoids/crypki/proto"
	"github.com/theparanoids/ysshra/crypki"
	"golang.org/x/crypto/ssh"
	"google.golang.org/grpc/grpclog"

	"verifharness/casim"
	"verifharness/core"
)

func main() {
	// Before anything can touch crypto/x509's system pool: point it at a harness-made
	// "system" CA, so that trusting the host's roots is observable.
	sysDir, err := os.MkdirTemp("", "verif-c18-sys-")
	if err != nil {
		panic(err)
	}
	defer os.RemoveAll(sysDir)
	sysCA, err = casim.NewCA("harness system-trusted CA", 4)
	must(err)
	sysFile, err := casim.WriteFile(sysDir, "system-roots.pem", sysCA.PEM)
	must(err)
	emptyDir := sysDir + "/empty"
	must(os.Mkdir(emptyDir, 0o700))
	os.Setenv("SSL_CERT_FILE", sysFile)
	os.Setenv("SSL_CERT_DIR", emptyDir)
	defer func() {
		// core.Main exits the process on its own error paths only after finish(); make sure the
		// directory goes away on the normal path too
		os.RemoveAll(sysDir)
	}()
	core.Main("C18", &core.Driver{
		Imports:  "From Verif Require Import Lib.Base Model.Tls Model.C18Check.",
		CheckFn:  "C18Check.check",
		ClassFn:  "C18Check.classify",
		CaseType: "C18Check.case",
		Run:      run,
	})
}

var sysCA *casim.CA

var ips = []string{"127.0.0.1", "127.0.0.2", "127.0.0.3", "127.0.0.4"}

const (
	idCAA, idCAB, idForeign, idSystem, idClientCA, idClientForeign, idExpiredCA, idSelfClient = 1, 2, 3, 4, 5, 6, 7, 8
	nameOtherIP, nameOtherDNS                                                                 = 9, 20
)

// ---- the dimensions of the matrix

type identity int

const (
	idByA identity = iota
	idByB
	idByForeign
	idBySystem
	idSelfSigned
	idExpired
	idNotYet
	idExpiredRecently // NotAfter 90 s ago: no tolerance for "recently" expired certificates
	idNotYetSoon      // NotBefore 90 s ahead
	idWrongIP
	idWrongDNS
	idPlain
	nIdentities
)

var identityNames = []string{"issued-by-CA-A", "issued-by-CA-B", "issued-by-foreign-CA", "issued-by-system-trusted-CA",
	"self-signed", "expired", "not-yet-valid", "expired-90s-ago", "valid-in-90s", "valid-for-another-IP", "valid-for-a-DNS-name-only", "plaintext-no-TLS"}

type vrange struct{ min, max uint16 }

var vranges = []vrange{
	{tls.VersionTLS10, tls.VersionTLS11}, // old protocols only
	{tls.VersionTLS12, tls.VersionTLS12},
	{tls.VersionTLS13, tls.VersionTLS13},
	{tls.VersionTLS10, tls.VersionTLS13},
	{tls.VersionTLS10, tls.VersionTLS12},
	{tls.VersionTLS11, tls.VersionTLS11},
}

type authMode struct {
	mode    tls.ClientAuthType
	foreign bool // verify against a CA that did not issue the RA's certificate
	coq     string
}

var authModes = []authMode{
	{tls.NoClientCert, false, "NoClientCert"},
	{tls.RequestClientCert, false, "RequestClientCert"},
	{tls.RequireAndVerifyClientCert, false, "RequireAndVerifyClientCert"},
	{tls.RequireAnyClientCert, false, "RequireAnyClientCert"},
	{tls.VerifyClientCertIfGiven, false, "VerifyClientCertIfGiven"},
	{tls.RequireAndVerifyClientCert, true, "RequireAndVerifyClientCert"},
	{tls.VerifyClientCertIfGiven, true, "VerifyClientCertIfGiven"},
}

type bundleKind int // 0: one file [A]; 1: two files [A],[B]; 2: one file holding A and B

var bundleNames = []string{"one-file[A]", "two-files[A][B]", "one-file[A+B]",
	"three-files[clientCA][A-without-final-newline][B]", "two-files[A-without-final-newline][B-without-final-newline]",
	"one-file[A]-reached-through-a-symlinked-directory-and-dot-dot",
	"one-file[E]-whose-only-CA-certificate-has-expired", "two-files[E][E2]-both-CA-certificates-expired"}

const nBundles = 8

type srvSpec struct {
	id   identity
	vr   int
	auth int
}

func (s srvSpec) String() string {
	v := vranges[s.vr]
	a := authModes[s.auth]
	f := ""
	if a.foreign {
		f = "(foreign client CA)"
	}
	return fmt.Sprintf("%s tls[%04x..%04x] %s%s", identityNames[s.id], v.min, v.max, a.coq, f)
}

var genuine = srvSpec{idByA, 3, 1}

type pki struct {
	caA, caB, foreign, clientCA, clientForeign *casim.CA
	leaves                                     map[string]tls.Certificate // identity/ip -> leaf
	nb, na                                     map[string]int64
	client                                     tls.Certificate
	now                                        time.Time
	// one server configuration per (identity, address, protocol range, client-auth mode), kept for the whole run:
	// the servers are long-running instances (their session-ticket keys persist between the calls of different signers)
	tlsCache map[string]*tls.Config
}

func (p *pki) leaf(id identity, ipIdx int) (tls.Certificate, int64, int64) {
	k := fmt.Sprintf("%d/%d", id, ipIdx)
	return p.leaves[k], p.nb[k], p.na[k]
}

func buildPKI() *pki {
	p := &pki{leaves: map[string]tls.Certificate{}, nb: map[string]int64{}, na: map[string]int64{}, now: time.Now()}
	var err error
	p.caA, err = casim.NewCA("harness CA A", idCAA)
	must(err)
	p.caB, err = casim.NewCA("harness CA B", idCAB)
	must(err)
	p.foreign, err = casim.NewCA("foreign CA", idForeign)
	must(err)
	p.clientCA, err = casim.NewCA("harness client CA", idClientCA)
	must(err)
	p.clientForeign, err = casim.NewCA("another client CA", idClientForeign)
	must(err)
	p.client, err = p.clientCA.Issue(casim.Leaf{CN: "ra", Client: true})
	must(err)
	day := 24 * time.Hour
	for i, ip := range ips {
		for id := identity(0); id < nIdentities; id++ {
			l := casim.Leaf{CN: fmt.Sprintf("srv-%d-%d", id, i+1), IPs: []string{ip},
				NotBefore: p.now.Add(-2 * day), NotAfter: p.now.Add(30 * day)}
			var c tls.Certificate
			switch id {
			case idByA:
				c, err = p.caA.Issue(l)
			case idByB:
				c, err = p.caB.Issue(l)
			case idByForeign:
				c, err = p.foreign.Issue(l)
			case idBySystem:
				c, err = sysCA.Issue(l)
			case idSelfSigned:
				c, err = casim.SelfSigned(l)
			case idExpired:
				l.NotAfter = p.now.Add(-day)
				c, err = p.caA.Issue(l)
			case idNotYet:
				l.NotBefore = p.now.Add(day)
				c, err = p.caA.Issue(l)
			case idExpiredRecently:
				l.NotAfter = p.now.Add(-90 * time.Second)
				c, err = p.caA.Issue(l)
			case idNotYetSoon:
				l.NotBefore = p.now.Add(90 * time.Second)
				c, err = p.caA.Issue(l)
			case idWrongIP:
				l.IPs = []string{"127.0.0.9"}
				c, err = p.caA.Issue(l)
			case idWrongDNS:
				l.IPs, l.DNS = nil, []string{"other.example"}
				c, err = p.caA.Issue(l)
			case idPlain:
				c, err = p.caA.Issue(l) // unused
			}
			must(err)
			k := fmt.Sprintf("%d/%d", id, i)
			p.leaves[k] = c
			p.nb[k], p.na[k] = c.Leaf.NotBefore.Unix(), c.Leaf.NotAfter.Unix()
		}
	}
	return p
}

// gallina server record + the farm mode for spec s at address index ipIdx
func (p *pki) server(s srvSpec, ipIdx int) (string, casim.Mode) {
	leaf, nb, na := p.leaf(s.id, ipIdx)
	issuer := uint64(idCAA)
	names := []string{core.GN(uint64(ipIdx + 1))}
	switch s.id {
	case idByB:
		issuer = idCAB
	case idByForeign:
		issuer = idForeign
	case idBySystem:
		issuer = idSystem
	case idSelfSigned:
		issuer = uint64(100 + ipIdx + 1)
	case idWrongIP:
		names = []string{core.GN(nameOtherIP)}
	case idWrongDNS:
		names = []string{core.GN(nameOtherDNS)}
	}
	v := vranges[s.vr]
	a := authModes[s.auth]
	clientCAs, clientCAid := casim.Pool(p.clientCA), uint64(idClientCA)
	if a.foreign {
		clientCAs, clientCAid = casim.Pool(p.clientForeign), idClientForeign
	}
	g := core.GApp("mkServer", core.GBool(s.id == idPlain), core.GN(issuer), core.GZ(nb), core.GZ(na), core.GList(names),
		core.GN(uint64(v.min)), core.GN(uint64(v.max)), a.coq, core.GList([]string{core.GN(clientCAid)}))
	if s.id == idPlain {
		return g, casim.Mode{Plain: true}
	}
	key := fmt.Sprintf("%d/%d/%d/%d", s.id, ipIdx, s.vr, s.auth)
	if p.tlsCache == nil {
		p.tlsCache = map[string]*tls.Config{}
	}
	cfg, ok := p.tlsCache[key]
	if !ok {
		cfg = casim.ServerTLS(leaf, v.min, v.max, a.mode, clientCAs)
		p.tlsCache[key] = cfg
	}
	return g, casim.Mode{TLS: cfg}
}

type harness struct {
	c        *core.Ctx
	p        *pki
	farm     *casim.Farm
	keys     *casim.SSHKeys
	dir      string
	certFile string
	keyFile  string
	bundles  [][]string // files per bundle kind
	signers  map[string]*crypki.Signer
	// selfClient: the cases that follow configure a client certificate that is a single self-signed certificate
	selfClient                bool
	selfCert                  tls.Certificate
	selfCertFile, selfKeyFile string
}

func (h *harness) signer(b bundleKind, eps []int) (*crypki.Signer, error) {
	key := fmt.Sprint(b, eps, h.selfClient)
	if s, ok := h.signers[key]; ok {
		return s, nil
	}
	certFile, keyFile := h.certFile, h.keyFile
	if h.selfClient {
		certFile, keyFile = h.selfCertFile, h.selfKeyFile
	}
	names := make([]string, len(eps))
	for i, ep := range eps {
		names[i] = ips[ep]
	}
	conf := crypki.SignerConfig{
		TLSClientKeyFile: keyFile, TLSClientCertFile: certFile, TLSCACertFiles: h.bundles[b],
		CrypkiEndpoints: names, CrypkiPort: uint(h.farm.Port), Retries: 1, PerTryTimeout: 2 * time.Second,
	}
	// every other signer is built the way the application builds it: from the signer section of a configuration file
	var s *crypki.Signer
	var err error
	if len(h.signers)%2 == 1 {
		s, err = casim.SignerViaConfig(h.dir, conf)
	} else {
		s, err = crypki.NewSigner(conf)
	}
	if err == nil {
		h.signers[key] = s
	}
	return s, err
}

// runCase: endpoint i of the list is address eps[i] served according to specs[i].
func (h *harness) runCase(class string, b bundleKind, eps []int, specs []srvSpec) {
	c := h.c
	if c.Skip() {
		return
	}
	var epTerms []string
	var human []string
	for i, ep := range eps {
		g, mode := h.p.server(specs[i], ep)
		h.farm.SetMode(ips[ep], mode)
		epTerms = append(epTerms, "("+core.GN(uint64(ep+1))+", "+g+", "+core.GN(uint64(ep+1))+")")
		human = append(human, fmt.Sprintf("%s: %s", ips[ep], specs[i]))
	}
	for ep := range ips { // addresses outside the list must never be contacted
		used := false
		for _, e := range eps {
			used = used || e == ep
		}
		if !used {
			h.farm.SetMode(ips[ep], casim.Mode{Down: true})
		}
	}
	h.farm.Take()
	signer, err := h.signer(b, eps)
	if err != nil {
		c.Native("NewSigner failed on a valid configuration: "+err.Error(), human)
		return
	}
	var certs []ssh.PublicKey
	var serr error
	ctx, cancel := context.WithTimeout(context.Background(), 30*time.Second)
	req := &proto.SSHCertificateSigningRequest{KeyMeta: &proto.KeyMeta{Identifier: "ssh-user-key"}, Principals: []string{"alice"}, KeyId: "c18"}
	panicked, msg := core.Guard(func() { certs, _, serr = signer.Sign(ctx, req) })
	cancel()
	if panicked {
		c.Native("panic in Signer.Sign: "+msg, human)
		return
	}
	if err := h.farm.Quiesce(); err != nil {
		c.Native("harness: servers did not quiesce: "+err.Error(), human)
		return
	}
	conns, rpcs := h.farm.Take()
	clientDER := h.p.client.Certificate[0]
	clientIssuer := uint64(idClientCA)
	if h.selfClient {
		clientDER, clientIssuer = h.selfCert.Certificate[0], idSelfClient
		human = append(human, "client certificate: a single self-signed certificate")
	}
	var obs, obsHuman []string
	for _, ep := range eps {
		ip := ips[ep]
		conn, hs, cc, rpc := false, false, false, false
		var ver uint16
		plain := false
		hsErr := ""
		for _, cr := range conns {
			if cr.IP != ip {
				continue
			}
			conn = true
			plain = plain || cr.Plain
			if cr.HandshakeOK {
				hs, ver = true, cr.Version
				cc = len(cr.PeerCerts) > 0 && bytes.Equal(cr.PeerCerts[0], clientDER)
				if cr.ALPN != "h2" {
					c.Native("a completed handshake did not negotiate h2", human)
				}
			} else if cr.Err != "" {
				hsErr = cr.Err
			}
		}
		for _, rr := range rpcs {
			if rr.IP == ip {
				rpc = true
			}
		}
		if plain { // no handshake to speak of: "served" means a request got through
			hs, ver = rpc, 0
		}
		obs = append(obs, core.GApp("mkObs", core.GN(uint64(ep+1)), core.GBool(conn), core.GBool(hs), core.GN(uint64(ver)), core.GBool(cc), core.GBool(rpc)))
		obsHuman = append(obsHuman, fmt.Sprintf("%s conn=%v handshake=%v version=%04x clientcert=%v rpc=%v %s", ip, conn, hs, ver, cc, rpc, hsErr))
	}
	for _, cr := range conns { // nobody else may be contacted
		listed := false
		for _, ep := range eps {
			listed = listed || ips[ep] == cr.IP
		}
		if !listed {
			c.Native("an address that is not in the endpoint list was contacted: "+cr.IP, human)
		}
	}
	var certIDs []string
	for _, k := range certs {
		certIDs = append(certIDs, core.GN(h.keys.ID(k)))
	}
	bundleIDs := []string{core.GN(idCAA)}
	if b == 6 || b == 7 {
		// no server certificate was issued by the expired CAs: nobody is authenticated by such a bundle
		bundleIDs = []string{core.GN(idExpiredCA)}
	} else if b != 0 && b != 5 {
		bundleIDs = append(bundleIDs, core.GN(idCAB))
	}
	if b == 3 {
		bundleIDs = append(bundleIDs, core.GN(idClientCA))
	}
	env := core.GApp("mkEnv", core.GList(bundleIDs), core.GList([]string{core.GN(idSystem)}), core.GN(clientIssuer), core.GZ(h.p.now.Unix()))
	c.Case(class,
		core.GApp("CTls", env, core.GList(epTerms), core.GList(obs), core.GBool(serr != nil), core.GList(certIDs)),
		map[string]interface{}{"bundle": bundleNames[b], "endpoints": human, "observed": obsHuman,
			"sign_error": fmt.Sprint(serr), "certs": strings.Join(certIDs, ",")})
	c.Stat("bundle:" + bundleNames[b])
	for _, s := range specs {
		c.Stat("identity:" + identityNames[s.id])
	}
}

func run(c *core.Ctx) {
	log.SetOutput(io.Discard)
	zerolog.SetGlobalLevel(zerolog.Disabled)
	grpclog.SetLoggerV2(grpclog.NewLoggerV2(io.Discard, io.Discard, io.Discard))
	if pool, err := x509.SystemCertPool(); err != nil || pool == nil {
		c.Note("x509.SystemCertPool unavailable: the system-trusted-CA identity cannot expose a system-pool fallback")
	}
	r := c.Rng
	dir, err := os.MkdirTemp("", "verif-c18-")
	must(err)
	defer os.RemoveAll(dir)
	h := &harness{c: c, p: buildPKI(), dir: dir, signers: map[string]*crypki.Signer{}}
	keyPEM, err := casim.KeyPEM(h.p.client)
	must(err)
	h.certFile, err = casim.WriteFile(dir, "client.crt", casim.CertPEM(h.p.client))
	must(err)
	h.keyFile, err = casim.WriteFile(dir, "client.key", keyPEM)
	must(err)
	fa, err := casim.WriteFile(dir, "ca-a.pem", h.p.caA.PEM)
	must(err)
	fb, err := casim.WriteFile(dir, "ca-b.pem", h.p.caB.PEM)
	must(err)
	fab, err := casim.WriteFile(dir, "ca-a+b.pem", append(append([]byte{}, h.p.caA.PEM...), h.p.caB.PEM...))
	must(err)
	// PEM files need not end in a newline
	fan, err := casim.WriteFile(dir, "ca-a-no-newline.pem", bytes.TrimRight(h.p.caA.PEM, "\r\n"))
	must(err)
	fbn, err := casim.WriteFile(dir, "ca-b-no-newline.pem", bytes.TrimRight(h.p.caB.PEM, "\r\n"))
	must(err)
	fcc, err := casim.WriteFile(dir, "ca-client.pem", h.p.clientCA.PEM)
	must(err)
	// a configured path the operating system resolves through a symbolic link: <dir>/link -> <dir>/sub/deeper, so
	// <dir>/link/../ca-x.pem is <dir>/sub/ca-x.pem (CA A); the file <dir>/ca-x.pem (what the path looks like once
	// "link/.." is cancelled textually) holds a foreign CA
	must(os.MkdirAll(filepath.Join(dir, "sub", "deeper"), 0o755))
	must(os.Symlink(filepath.Join(dir, "sub", "deeper"), filepath.Join(dir, "link")))
	_, err = casim.WriteFile(filepath.Join(dir, "sub"), "ca-x.pem", h.p.caA.PEM)
	must(err)
	_, err = casim.WriteFile(dir, "ca-x.pem", h.p.foreign.PEM)
	must(err)
	fsym := filepath.Join(dir, "link") + "/../ca-x.pem"
	// CA certificates that have expired (a forgotten roll-over): they authenticate nobody
	var fexp [2]string
	for i := range fexp {
		e, err := casim.NewCAValid(fmt.Sprintf("expired CA %d", i+1), idExpiredCA, time.Now().Add(-800*24*time.Hour), time.Now().Add(-time.Duration(1+i*30)*24*time.Hour))
		must(err)
		fexp[i], err = casim.WriteFile(dir, fmt.Sprintf("ca-expired-%d.pem", i+1), e.PEM)
		must(err)
	}
	h.bundles = [][]string{{fa}, {fa, fb}, {fab}, {fcc, fan, fb}, {fan, fbn}, {fsym}, {fexp[0]}, {fexp[0], fexp[1]}}
	// a client certificate that is its own issuer (a deployment without a client CA: the servers pin it or only log it)
	h.selfCert, err = casim.SelfSigned(casim.Leaf{CN: "ra-self-signed", Client: true, NotBefore: time.Now().Add(-time.Hour), NotAfter: time.Now().Add(24 * time.Hour)})
	must(err)
	selfKeyPEM, err := casim.KeyPEM(h.selfCert)
	must(err)
	h.selfCertFile, err = casim.WriteFile(dir, "client-self.crt", casim.CertPEM(h.selfCert))
	must(err)
	h.selfKeyFile, err = casim.WriteFile(dir, "client-self.key", selfKeyPEM)
	must(err)
	h.keys, err = casim.NewSSHKeys(len(ips), 0) // server at address i answers with certificate i+1
	must(err)
	h.farm, err = casim.NewFarm(ips)
	must(err)
	defer h.farm.Close()
	h.farm.SetHandler(func(ip string, req *proto.SSHCertificateSigningRequest, attempt int) casim.Answer {
		for i, x := range ips {
			if x == ip {
				return casim.Answer{Key: h.keys.Line(uint64(i+1)) + "\n"}
			}
		}
		return casim.Answer{Key: ""}
	})

	// position patterns: X = the server under test, G = a genuine endpoint
	type pattern struct {
		name string
		len  int
		x    int
	}
	patterns := []pattern{{"X", 1, 0}, {"X,G", 2, 0}, {"G,X", 2, 1}, {"X,G,G", 3, 0}, {"G,X,G", 3, 1}, {"G,G,X", 3, 2}}
	runPattern := func(class string, b bundleKind, s srvSpec, pt pattern) {
		perm := r.Perm(len(ips))
		eps := perm[:pt.len]
		specs := make([]srvSpec, pt.len)
		for i := range specs {
			specs[i] = genuine
		}
		specs[pt.x] = s
		h.runCase(class+"/"+pt.name, b, eps, specs)
	}

	if c.Thorough() {
		// the full matrix, each cell at three positions, plus every position for every identity
		for b := bundleKind(0); b < nBundles; b++ {
			for id := identity(0); id < nIdentities; id++ {
				for vr := range vranges {
					for au := range authModes {
						s := srvSpec{id, vr, au}
						for _, pi := range []int{0, 1, 4} {
							runPattern("matrix", b, s, patterns[pi])
						}
					}
				}
				for _, pt := range patterns {
					runPattern("positions", b, srvSpec{id, 3, 1}, pt)
				}
			}
		}
	} else {
		// covering sample: every identity (x both bundle sizes), every protocol range, every
		// client-auth mode, each at an impostor-before-genuine position, then mixed cells
		for id := identity(0); id < nIdentities; id++ {
			runPattern("identity", bundleKind(int(id)%nBundles), srvSpec{id, 3, 1}, patterns[1])
		}
		runPattern("identity", 0, srvSpec{idByB, 3, 0}, patterns[1]) // CA B is foreign to the one-file bundle
		runPattern("identity", 1, srvSpec{idByB, 3, 0}, patterns[0])
		runPattern("identity", 2, srvSpec{idByB, 1, 2}, patterns[0])
		runPattern("identity", 5, srvSpec{idByForeign, 3, 1}, patterns[1])
		runPattern("identity", 5, srvSpec{idByForeign, 3, 1}, patterns[0])
		for _, b := range []bundleKind{3, 4, 5} {
			runPattern("identity", b, srvSpec{idByA, 3, 1}, patterns[1])
			runPattern("identity", b, srvSpec{idByB, 3, 1}, patterns[0])
			runPattern("identity", b, srvSpec{idByForeign, 3, 1}, patterns[1])
		}
		// the RA's certificate is a single self-signed certificate: servers that ask for a certificate see exactly it,
		// servers that verify it against a client CA refuse the RA
		h.selfClient = true
		for au := range authModes {
			runPattern("self-signed-client-certificate", bundleKind(au%3), srvSpec{idByA, 1 + au%3, au}, patterns[au%len(patterns)])
		}
		h.selfClient = false
		for _, b := range []bundleKind{6, 7} {
			runPattern("expired-bundle", b, srvSpec{idBySystem, 3, 1}, patterns[0])
			runPattern("expired-bundle", b, srvSpec{idBySystem, 3, 0}, patterns[1])
			runPattern("expired-bundle", b, srvSpec{idByA, 3, 1}, patterns[0])
			runPattern("expired-bundle", b, srvSpec{idSelfSigned, 1, 1}, patterns[2])
		}
		for vr := range vranges {
			runPattern("protocol", bundleKind(vr%nBundles), srvSpec{idByA, vr, vr % 3}, patterns[1+vr%3])
		}
		for au := range authModes {
			runPattern("client-auth", bundleKind(au%nBundles), srvSpec{idByA, 1 + au%3, au}, patterns[(au+1)%len(patterns)])
		}
		for i := 0; i < 300; i++ {
			s := srvSpec{identity(r.Intn(int(nIdentities))), r.Intn(len(vranges)), r.Intn(len(authModes))}
			runPattern("mixed", bundleKind(r.Intn(nBundles)), s, patterns[r.Intn(len(patterns))])
		}
	}
	// configured CA files that cannot be read (missing, a directory): building the signer may fail; if a signer is built
	// all the same, it authenticates nobody - in particular not a server certified by the host's trust store
	for i, files := range [][]string{{filepath.Join(dir, "no-such-ca.pem")}, {dir}, {filepath.Join(dir, "no-such-ca.pem"), dir}} {
		conf := crypki.SignerConfig{TLSClientKeyFile: h.keyFile, TLSClientCertFile: h.certFile, TLSCACertFiles: files,
			CrypkiEndpoints: []string{ips[0], ips[1]}, CrypkiPort: uint(h.farm.Port), Retries: 1, PerTryTimeout: 2 * time.Second}
		var sg *crypki.Signer
		var err error
		if p, msg := core.Guard(func() {
			if i%2 == 0 {
				sg, err = crypki.NewSigner(conf)
			} else {
				sg, err = casim.SignerViaConfig(h.dir, conf)
			}
		}); p {
			c.Native("building a signer over an unreadable CA file panicked: "+msg, files)
			continue
		}
		if err != nil || sg == nil {
			c.NativeCheck(1)
			continue
		}
		_, m0 := h.p.server(srvSpec{idBySystem, 3, 1}, 0)
		_, m1 := h.p.server(srvSpec{idByA, 3, 1}, 1)
		h.farm.SetMode(ips[0], m0)
		h.farm.SetMode(ips[1], m1)
		h.farm.Take()
		ctx, cancel := context.WithTimeout(context.Background(), 20*time.Second)
		var serr error
		var certs []ssh.PublicKey
		core.Guard(func() {
			certs, _, serr = sg.Sign(ctx, &proto.SSHCertificateSigningRequest{KeyMeta: &proto.KeyMeta{Identifier: "ssh-user-key"}, Principals: []string{"alice"}, KeyId: "c18"})
		})
		cancel()
		_ = h.farm.Quiesce()
		_, rpcs := h.farm.Take()
		if serr == nil || len(certs) > 0 || len(rpcs) > 0 {
			c.Native(fmt.Sprintf("a signer built over unreadable CA files talked to a server (error=%v, %d certificates, %d requests reached a server)", serr, len(certs), len(rpcs)), files)
		} else {
			c.NativeCheck(1)
		}
	}
	// long-running servers and several signers in one process: a signer whose bundle covers a server talks to it
	// first, then a signer whose bundle does not cover it is pointed at the very same server instance
	for i, n := 0, c.N(6, 40); i < n; i++ {
		ip := r.Intn(len(ips))
		other := (ip + 1 + r.Intn(len(ips)-1)) % len(ips)
		sB := srvSpec{idByB, core.Pick(r, 1, 3, 4), core.Pick(r, 0, 1, 2)}
		h.runCase("same-server-after-another-signer/covering-bundle-first", core.Pick(r, bundleKind(1), bundleKind(2)), []int{ip}, []srvSpec{sB})
		h.runCase("same-server-after-another-signer/foreign-bundle", 0, []int{ip}, []srvSpec{sB})
		h.runCase("same-server-after-another-signer/foreign-bundle-then-genuine", 0, []int{ip, other}, []srvSpec{sB, genuine})
		sSys := srvSpec{idByA, 3, 1}
		h.runCase("same-server-after-another-signer/covering-bundle-first", 0, []int{other}, []srvSpec{sSys})
	}
	// lists made of several different impostors, with or without a genuine endpoint at the end
	for i, n := 0, c.N(80, 600); i < n; i++ {
		L := 1 + r.Intn(3)
		perm := r.Perm(len(ips))
		specs := make([]srvSpec, L)
		for j := range specs {
			specs[j] = srvSpec{identity(r.Intn(int(nIdentities))), r.Intn(len(vranges)), r.Intn(len(authModes))}
		}
		if r.Intn(2) == 0 {
			specs[L-1] = srvSpec{core.Pick(r, idByA, idByA, idByB), core.Pick(r, 1, 2, 3, 4), r.Intn(5)}
		}
		h.runCase("several-impostors", bundleKind(r.Intn(nBundles)), perm[:L], specs)
	}
}

func must(err error) {
	if err != nil {
		panic(err)
	}
}
