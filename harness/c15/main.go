// Correspondence harness for C15: message.(*Attributes).Marshal,
// message.Unmarshal, message.UnmarshalLegacy against Model/Message.v.
package main

import (
	"crypto/x509"
	"encoding/json"
	"fmt"
	"math"
	"math/rand"
	"strings"
	"unicode/utf8"

	"github.com/theparanoids/ysshra/message"
	"verifharness/core"
)

func main() {
	core.Main("C15", &core.Driver{
		Imports:  "From Verif Require Import Lib.Base Lib.Json Model.Message Model.C15Check.",
		CheckFn:  "C15Check.check",
		ClassFn:  "C15Check.classify",
		CaseType: "C15Check.case",
		Run:      run,
	})
}

// ---- Gallina rendering ---------------------------------------------------

func gTS(t *message.TouchlessSudo) string {
	if t == nil {
		return "None"
	}
	return "(Some " + core.GApp("mkTS", core.GBool(t.IsFirefighter), core.GStr(t.Hosts), core.GZ(t.Time)) + ")"
}

// gExts renders a map as the canonical association list json.Marshal prints
// (keys sorted at every level).
func gExts(m map[string]interface{}) (string, error) {
	if m == nil {
		return "None", nil
	}
	b, err := json.Marshal(m)
	if err != nil {
		return "", err
	}
	t, ok := core.JSONTree(b)
	if !ok || !strings.HasPrefix(t, "(JObj ") {
		return "", fmt.Errorf("extension map does not render as a JSON object: %s", b)
	}
	return "(Some " + strings.TrimSuffix(strings.TrimPrefix(t, "(JObj "), ")") + ")", nil
}

// sameJSONValue: equal as Go values of the types a JSON decode into interface{} produces (nil, bool, float64, string,
// []interface{}, map[string]interface{}); any other type on either side is a difference
func sameJSONValue(a, b interface{}) bool {
	switch x := a.(type) {
	case nil:
		return b == nil
	case bool:
		y, ok := b.(bool)
		return ok && x == y
	case float64:
		y, ok := b.(float64)
		return ok && x == y
	case string:
		y, ok := b.(string)
		return ok && x == y
	case []interface{}:
		y, ok := b.([]interface{})
		if !ok || len(x) != len(y) {
			return false
		}
		for i := range x {
			if !sameJSONValue(x[i], y[i]) {
				return false
			}
		}
		return true
	case map[string]interface{}:
		y, ok := b.(map[string]interface{})
		if !ok || len(x) != len(y) {
			return false
		}
		for k, v := range x {
			w, ok := y[k]
			if !ok || !sameJSONValue(v, w) {
				return false
			}
		}
		return true
	}
	return false
}

// inexact: the value holds a number outside the fragment the Coq model compares (integers of magnitude <= 2^53)
func inexact(v interface{}) bool {
	switch x := v.(type) {
	case float64:
		return x != math.Trunc(x) || math.Abs(x) > 1<<53
	case []interface{}:
		for _, e := range x {
			if inexact(e) {
				return true
			}
		}
	case map[string]interface{}:
		for _, e := range x {
			if inexact(e) {
				return true
			}
		}
	}
	return false
}

func validAttrs(a *message.Attributes) bool {
	ok := utf8.ValidString(a.Username) && utf8.ValidString(a.Hostname) && utf8.ValidString(a.SSHClientVersion)
	if a.TouchlessSudo != nil {
		ok = ok && utf8.ValidString(a.TouchlessSudo.Hosts)
	}
	return ok
}

func gAttrs(a *message.Attributes) (string, error) {
	if !validAttrs(a) {
		return "", fmt.Errorf("invalid UTF-8 in attributes")
	}
	ex, err := gExts(a.Exts)
	if err != nil {
		return "", err
	}
	return core.GApp("mkAttrs", core.GZ(int64(a.IfVer)), core.GStr(a.Username), core.GStr(a.Hostname), core.GStr(a.SSHClientVersion),
		core.GZ(int64(a.CAPubKeyAlgo)), core.GZ(int64(a.SignatureAlgo)), core.GBool(a.HardKey), core.GBool(a.Touch2SSH),
		gTS(a.TouchlessSudo), ex), nil
}

// errCode maps the implementation's error text onto the model's error enum.
func errCode(err error) uint64 {
	s := err.Error()
	switch {
	case strings.Contains(s, "ssh client version cannot be empty"):
		return 1
	case strings.Contains(s, "user name cannot be empty"):
		return 2
	case strings.Contains(s, "host name cannot be empty"):
		return 3
	case strings.Contains(s, "cannot find requester field"):
		return 4
	case strings.Contains(s, "invalid requester format"):
		return 5
	}
	return 99
}

func gRes(a *message.Attributes, err error) (string, error) {
	if err != nil {
		return "(Err " + core.GN(errCode(err)) + ")", nil
	}
	if a == nil {
		return "", fmt.Errorf("nil attributes with nil error")
	}
	t, e := gAttrs(a)
	if e != nil {
		return "", e
	}
	return "(Ok " + t + ")", nil
}

// ---- generators ------------------------------------------------------------

var cleanAtoms = []string{"alice", "bob", "host-1.example.com", "10.0.0.7", "8.1", "7.4", "0.0", "65535.65535", "x", "a=b", "==", "=",
	"k=v=w", "\u00fcn\u00ef\u00a9\u00f8d\u00e9", "\u65e5\u672c\u8a9e", "\U0001F600", "\u212a", "\u017f", "{}", "[]", "\"q\"", "a,b,c", "h1,h2", "*.example.com",
	"\u200b", "\ufeff", "x\u200b", "\u180e", "true", "6", "IFVer=7", "req=x"}

// values free of whitespace and '@'
func genClean(r *rand.Rand) string {
	switch r.Intn(6) {
	case 0, 1, 2:
		return core.Pick(r, cleanAtoms...)
	case 3:
		return core.Pick(r, cleanAtoms...) + core.Pick(r, cleanAtoms...)
	default:
		n := 1 + r.Intn(10)
		var b strings.Builder
		for i := 0; i < n; i++ {
			switch r.Intn(6) {
			case 0:
				b.WriteRune(rune(0xa1 + r.Intn(0x500))) // above U+00A0, below U+1680
			case 1:
				b.WriteRune(rune(0x4e00 + r.Intn(0x100)))
			default:
				c := rune(33 + r.Intn(94))
				if c == '@' {
					c = '='
				}
				b.WriteRune(c)
			}
		}
		return b.String()
	}
}

var dirtyAtoms = []string{"a b", " lead", "trail ", "u@h", "@", "a@b@c", "tab\there", "nl\n", " ", "x ", " x", "mid dle", "\u3000", "end\u3000",
	"\u00a0x", "x\u0085", "\u00a0", "x\u00a0", "x\u00a0y", "\u1680", "\u2003", "\v", "\f", "\r", "\u2028", "\u2029x", "a\u202fb", "x\u205f", "\u200a", "\u2000x", "req=u@h", "a HardKey=true"}

func genValue(r *rand.Rand) string {
	switch r.Intn(10) {
	case 0:
		return ""
	case 1, 2:
		return core.Pick(r, dirtyAtoms...)
	case 3:
		return genClean(r) + core.Pick(r, dirtyAtoms...)
	case 4:
		return core.GenText(r)
	default:
		return genClean(r)
	}
}

func genExtValue(r *rand.Rand, depth int) interface{} {
	switch r.Intn(10) {
	case 0:
		return nil
	case 1:
		return r.Intn(2) == 0
	case 2, 3:
		return core.Pick[float64](r, 0, 1, -1, 100, 65535, 1<<31, -(1 << 40), 9007199254740992, -9007199254740992, 4294967296, 7, 1<<60, -(1 << 62), 1e18, 9007199254740994, 9.2e18, -9.2e18, 1e19, 0.5, 1e-7)
	case 4, 5, 6:
		return core.GenText(r)
	case 7:
		if depth <= 0 {
			return []interface{}{}
		}
		n := r.Intn(4)
		l := make([]interface{}, n)
		for i := range l {
			l[i] = genExtValue(r, depth-1)
		}
		return l
	default:
		if depth <= 0 {
			return map[string]interface{}{}
		}
		return genExtMap(r, depth-1)
	}
}

func genExtMap(r *rand.Rand, depth int) map[string]interface{} {
	n := r.Intn(4)
	m := map[string]interface{}{}
	for i := 0; i < n; i++ {
		k := core.GenText(r)
		if r.Intn(3) == 0 {
			k = core.Pick(r, "field1", "field2", "a", "A", "exts", "req", "z", "\u00e9", "e\u0301", "\u65e5", "", "b", "aa", "a\x00")
		}
		m[k] = genExtValue(r, depth)
	}
	return m
}

func genTS(r *rand.Rand) *message.TouchlessSudo {
	switch r.Intn(6) {
	case 0:
		return nil
	case 1:
		return &message.TouchlessSudo{}
	}
	t := &message.TouchlessSudo{}
	t.IsFirefighter = r.Intn(2) == 0
	if r.Intn(3) > 0 {
		t.Hosts = genValue(r)
	}
	t.Time = core.Pick[int64](r, 0, 0, 1, 30, 60, -1, -30, 1<<31, math.MaxInt64, math.MinInt64, math.MaxInt64-1, 1000000007)
	return t
}

func genAttrs(r *rand.Rand) *message.Attributes {
	a := &message.Attributes{}
	a.IfVer = core.Pick(r, 7, 7, 7, 6, 6, 6, 0, 5, 8, 100, -1, math.MaxInt64, math.MinInt64)
	a.Username, a.Hostname, a.SSHClientVersion = genValue(r), genValue(r), genValue(r)
	if r.Intn(3) > 0 { // bias towards acceptable sets
		if a.Username == "" {
			a.Username = genClean(r)
		}
		if a.Hostname == "" {
			a.Hostname = genClean(r)
		}
		if a.SSHClientVersion == "" {
			a.SSHClientVersion = genClean(r)
		}
	}
	a.CAPubKeyAlgo = x509.PublicKeyAlgorithm(core.Pick[int](r, 0, 0, 1, 2, 3, 4, 5, -1, 99, math.MaxInt64, math.MinInt64))
	a.SignatureAlgo = x509.SignatureAlgorithm(core.Pick[int](r, 0, 0, 1, 3, 4, 16, 17, -1, 1000, math.MaxInt64, math.MinInt64))
	a.HardKey, a.Touch2SSH = r.Intn(2) == 0, r.Intn(2) == 0
	a.TouchlessSudo = genTS(r)
	switch r.Intn(5) {
	case 0:
		a.Exts = nil
	case 1:
		a.Exts = map[string]interface{}{}
	default:
		a.Exts = genExtMap(r, 3)
	}
	return a
}

// ---- ordered JSON text builder (keys may repeat) ----------------------------

type kv struct{ k, v string }

func renderObj(kvs []kv) string {
	var parts []string
	for _, p := range kvs {
		kb, _ := json.Marshal(p.k)
		parts = append(parts, string(kb)+":"+p.v)
	}
	return "{" + strings.Join(parts, ",") + "}"
}

func indexOf(l []string, x string) int {
	for i, y := range l {
		if y == x {
			return i
		}
	}
	return 0
}

func jstr(s string) string { b, _ := json.Marshal(s); return string(b) }

func genJSONValue(r *rand.Rand, depth int) string {
	switch r.Intn(12) {
	case 0:
		return "null"
	case 1:
		return core.Pick(r, "true", "false")
	case 2, 3:
		return core.Pick(r, "0", "1", "2", "7", "6", "-1", "-0", "1.0", "1e2", "65535", "0.5", "1E0", "9007199254740992", "9007199254740993",
			"9223372036854775807", "9223372036854775808", "-9223372036854775808", "-9223372036854775809", "1e999", "100")
	case 4, 5, 6:
		return jstr(core.GenText(r))
	case 7, 8:
		if depth <= 0 {
			return "[]"
		}
		n := r.Intn(4)
		var xs []string
		for i := 0; i < n; i++ {
			xs = append(xs, genJSONValue(r, depth-1))
		}
		return "[" + strings.Join(xs, ",") + "]"
	default:
		if depth <= 0 {
			return "{}"
		}
		n := r.Intn(4)
		var kvs []kv
		for i := 0; i < n; i++ {
			k := core.GenText(r)
			if r.Intn(2) == 0 {
				k = core.Pick(r, "a", "b", "a", "isFirefighter", "hosts", "time", "TIME", "Hosts", "x")
			}
			kvs = append(kvs, kv{k, genJSONValue(r, depth-1)})
		}
		return renderObj(kvs)
	}
}

var attrNames = []string{"ifVer", "username", "hostname", "sshClientVersion", "caPubKeyAlgo", "signatureAlgo", "hardKey", "touch2SSH", "touchlessSudo", "exts"}

func caseVariant(r *rand.Rand, k string) string {
	switch r.Intn(5) {
	case 0:
		return strings.ToUpper(k)
	case 1:
		return strings.ToLower(k)
	case 2: // Kelvin sign / long s fold onto k / s
		return strings.NewReplacer("k", "\u212a", "s", "\u017f", "K", "\u212a", "S", "\u017f").Replace(k)
	case 3:
		return strings.Title(k)
	default:
		if len(k) > 1 {
			return k[:len(k)-1]
		}
		return k + "x"
	}
}

// a plausible value of the right JSON type for a field
func typedValue(r *rand.Rand, name string) string {
	switch name {
	case "ifVer":
		return core.Pick(r, "7", "6", "8", "0", "-3", "7")
	case "username", "hostname":
		return jstr(genValue(r))
	case "sshClientVersion":
		return jstr(core.Pick(r, "8.1", "7.4", "9.0", "", "x", "8.1 ", "65536.0"))
	case "caPubKeyAlgo", "signatureAlgo":
		return core.Pick(r, "0", "1", "3", "-1", "99")
	case "hardKey", "touch2SSH":
		return core.Pick(r, "true", "false")
	case "touchlessSudo":
		var kvs []kv
		if r.Intn(2) == 0 {
			kvs = append(kvs, kv{core.Pick(r, "isFirefighter", "ISFIREFIGHTER", "i\u017fFirefighter"), core.Pick(r, "true", "false", "null")})
		}
		if r.Intn(2) == 0 {
			kvs = append(kvs, kv{core.Pick(r, "hosts", "Hosts"), jstr(genValue(r))})
		}
		if r.Intn(2) == 0 {
			kvs = append(kvs, kv{core.Pick(r, "time", "Time"), core.Pick(r, "0", "30", "-5", "9223372036854775807")})
		}
		if r.Intn(6) == 0 {
			return "null"
		}
		return renderObj(kvs)
	default: // exts
		if r.Intn(6) == 0 {
			return "null"
		}
		n := r.Intn(4)
		var kvs []kv
		for i := 0; i < n; i++ {
			kvs = append(kvs, kv{core.Pick(r, "a", "b", "c", "field1", "A", "\u00e9", core.GenText(r)), genJSONValue(r, 2)})
		}
		return renderObj(kvs)
	}
}

func baseKVs(r *rand.Rand) []kv {
	var kvs []kv
	for _, n := range attrNames {
		switch n {
		case "caPubKeyAlgo", "signatureAlgo", "touch2SSH", "touchlessSudo", "exts":
			if r.Intn(2) == 0 {
				continue
			}
		}
		v := typedValue(r, n)
		if (n == "username" || n == "hostname" || n == "sshClientVersion") && r.Intn(4) > 0 && v == `""` {
			v = jstr(genClean(r))
		}
		kvs = append(kvs, kv{n, v})
	}
	return kvs
}

// ---- legacy texts ----------------------------------------------------------

var legacyKeys = []string{"IFVer", "SSHClientVersion", "req", "HardKey", "Touch2SSH", "IsFirefighter", "TouchlessSudoHosts", "TouchlessSudoTime",
	"ifver", "REQ", "Req", "hardkey", "extra", "x", "", "github", "prins"}
var legacySeps = []string{" ", " ", " ", "  ", "   ", "\t", " \t ", "\n", " \n", "\u00a0 ", " \u00a0", " \u3000", "\u2003 ", "\r\n ", " \v", " \u0085 ", "\u00a0", "\u3000"}

func genLegacyToken(r *rand.Rand) string {
	k := core.Pick(r, legacyKeys...)
	var v string
	switch k {
	case "IFVer", "ifver":
		v = core.Pick(r, "6", "7", "5", "0", "-1", "+6", "06", "x", "", "6x", "9223372036854775807", "9223372036854775808", "-9223372036854775808",
			"-9223372036854775809", "99999999999999999999x", "1_0", "0x10", "\uff16", "+", "-", "1e3", "123456789012345678", "1234567890123456789")
	case "SSHClientVersion":
		v = core.Pick(r, "8.1", "7.4", "", "9", "8.1.2", "x", "65535.0", "65536.0", "08.01", "8.1=", "=8.1")
	case "req", "REQ", "Req":
		v = core.Pick(r, "user@host.com", "u@h", "@", "u@", "@h", "uh", "", "a@b@c", "u=x@h=y", "\u00fc@\u65e5\u672c", "user@host.com", "u@h", "=@=", "u\u00a0v@h")
	case "HardKey", "Touch2SSH", "IsFirefighter", "hardkey":
		v = core.Pick(r, "true", "false", "1", "0", "t", "f", "T", "F", "TRUE", "FALSE", "True", "False", "yes", "", "tRUE", "true=", "2")
	case "TouchlessSudoHosts":
		v = core.Pick(r, "h1,h2", "host", "", "a=b", "a@b", "*")
	case "TouchlessSudoTime":
		v = core.Pick(r, "30", "0", "-5", "+7", "x", "", "9223372036854775807", "9223372036854775808", "-9223372036854775809", "3.5", "1e2", "0030", "99999999999999999999999")
	default:
		v = genClean(r)
	}
	switch r.Intn(8) {
	case 0:
		return k // no '=' at all
	case 1:
		return k + "=" // empty value
	case 2:
		return k + "=" + v + "=" + genClean(r) // '=' inside the value
	}
	return k + "=" + v
}

func genLegacyText(r *rand.Rand) string {
	var b strings.Builder
	if r.Intn(4) == 0 {
		b.WriteString(core.Pick(r, legacySeps...))
	}
	n := r.Intn(9)
	hasReq := false
	for i := 0; i < n; i++ {
		t := genLegacyToken(r)
		if strings.HasPrefix(t, "req") {
			hasReq = true
		}
		b.WriteString(t)
		if i < n-1 || r.Intn(4) == 0 {
			b.WriteString(core.Pick(r, legacySeps...))
		}
	}
	if !hasReq && r.Intn(3) > 0 {
		b.WriteString(" req=" + core.Pick(r, "user@host.com", "u@h", "a@b"))
		if r.Intn(3) == 0 { // repeated key after it: last wins
			b.WriteString(" " + genLegacyToken(r))
		}
	}
	return b.String()
}

// ---- driver ----------------------------------------------------------------

func run(c *core.Ctx) {
	r := c.Rng

	emitRound := func(class string, a *message.Attributes) {
		if a.Exts != nil && inexact(map[string]interface{}(a.Exts)) {
			// numbers beyond 2^53 and fractions: outside the model's number fragment, judged on the Go values -
			// a JSON-format set that is accepted comes back with an equal extension map (same values, same types)
			var out string
			var merr, uerr error
			var back *message.Attributes
			if p, msg := core.Guard(func() {
				out, merr = a.Marshal()
				if merr == nil {
					back, uerr = message.Unmarshal(out)
				}
			}); p {
				c.Native("panic in Attributes.Marshal / message.Unmarshal: "+msg, fmt.Sprintf("%+v", *a))
				return
			}
			if _, isJSON := core.JSONTree([]byte(out)); merr == nil && isJSON {
				if uerr != nil || back == nil || !sameJSONValue(map[string]interface{}(a.Exts), map[string]interface{}(back.Exts)) ||
					back.Username != a.Username || back.Hostname != a.Hostname || back.SSHClientVersion != a.SSHClientVersion || back.IfVer != a.IfVer {
					c.Native("a JSON-format attribute set with large or fractional numbers in its extension map does not come back equal",
						map[string]interface{}{"text": out, "given": fmt.Sprintf("%#v", a.Exts), "decoded": fmt.Sprintf("%#v", back), "unmarshal_err": fmt.Sprint(uerr)})
					return
				}
			}
			c.NativeCheck(1)
			c.Stat("attribute sets judged on the Go side (numbers outside the model's fragment)")
			return
		}
		in, err := gAttrs(a)
		if err != nil {
			c.Note("skipped unrenderable attribute set: " + err.Error())
			return
		}
		var out string
		var merr, uerr error
		var back *message.Attributes
		if p, msg := core.Guard(func() {
			out, merr = a.Marshal()
			if merr == nil {
				back, uerr = message.Unmarshal(out)
			}
		}); p {
			c.Native("panic in Attributes.Marshal / message.Unmarshal: "+msg, fmt.Sprintf("%+v", *a))
			return
		}
		enc, dec := "", "(Err 0%N)"
		if merr != nil {
			enc = "(Err " + core.GN(errCode(merr)) + ")"
		} else {
			if !utf8.ValidString(out) {
				c.Native("Marshal produced invalid UTF-8 from valid UTF-8 fields", fmt.Sprintf("%+v", *a))
				return
			}
			if t, ok := core.JSONTree([]byte(out)); ok {
				enc = "(Ok (WJson " + t + "))"
				// text level: the Gallina printer must reproduce the encoder's text from the tree
				c.Case(class+"/text", core.GApp("CEnc", t, core.GStr(out)), map[string]interface{}{"op": "print", "text": out})
			} else {
				enc = "(Ok (WLegacy " + core.GStr(out) + "))"
			}
			d, e := gRes(back, uerr)
			if e != nil {
				c.Native("Unmarshal result cannot be rendered: "+e.Error(), out)
				return
			}
			dec = d
			// the extension map as Go values: what comes back has the same values of the same types (the trees
			// compared in Coq are texts - two numbers of different Go types can print alike)
			if _, isJSON := core.JSONTree([]byte(out)); isJSON && uerr == nil && back != nil && len(a.Exts) > 0 && len(back.Exts) > 0 {
				if !sameJSONValue(map[string]interface{}(a.Exts), map[string]interface{}(back.Exts)) {
					c.Native("the extension map does not come back equal (same text, different Go values or types)",
						map[string]interface{}{"text": out, "given": fmt.Sprintf("%#v", a.Exts), "decoded": fmt.Sprintf("%#v", back.Exts)})
				} else {
					c.NativeCheck(1)
				}
			}
		}
		c.Case(class, core.GApp("CRound", in, enc, dec),
			map[string]interface{}{"op": "Marshal then Unmarshal", "attributes": fmt.Sprintf("%+v ts=%+v", *a, a.TouchlessSudo), "text": out,
				"marshal_err": fmt.Sprint(merr), "unmarshal_err": fmt.Sprint(uerr), "decoded": fmt.Sprintf("%+v", back)})
	}

	emitDecode := func(class, text string) {
		var back *message.Attributes
		var err error
		if p, msg := core.Guard(func() { back, err = message.Unmarshal(text) }); p {
			c.Native("panic in message.Unmarshal: "+msg, text)
			return
		}
		if !utf8.ValidString(text) { // the model's text is code points: Go-side no-panic oracle only
			c.NativeCheck(1)
			return
		}
		tree, ok := core.JSONTree([]byte(text))
		d, e := gRes(back, err)
		if e != nil {
			c.Native("Unmarshal result cannot be rendered: "+e.Error(), text)
			return
		}
		c.Case(class, core.GApp("CDecode", core.GStr(text), core.GOpt(ok, tree), d),
			map[string]interface{}{"op": "Unmarshal", "text": text, "err": fmt.Sprint(err), "decoded": fmt.Sprintf("%+v", back)})
	}

	emitLegacy := func(class, text string) {
		var back *message.Attributes
		var err error
		if p, msg := core.Guard(func() { back, err = message.UnmarshalLegacy(text) }); p {
			c.Native("panic in message.UnmarshalLegacy: "+msg, text)
			return
		}
		if !utf8.ValidString(text) {
			c.NativeCheck(1)
			return
		}
		d, e := gRes(back, err)
		if e != nil {
			c.Native("UnmarshalLegacy result cannot be rendered: "+e.Error(), text)
			return
		}
		c.Case(class, core.GApp("CLegacy", core.GStr(text), d),
			map[string]interface{}{"op": "UnmarshalLegacy", "text": text, "err": fmt.Sprint(err), "decoded": fmt.Sprintf("%+v", back)})
	}

	// (0) regression inputs of fixed findings first, then the suite's literals
	for _, t := range []string{"null", " null ", "", "{}", "[]", "1", `"x"`, "true",
		`{"exts":{"field1":"value1","field2":100},"hardKey":true,"hostname":"host.com","ifVer":7,"signatureAlgo":3,"sshClientVersion":"8.1","touch2SSH":false,"username":"user"}`,
		`{"ifVer":7, "username":"example_user", "hostname":"host.com", "sshClientVersion":"8.1", "hardKey":true, "touch2SSH":false, "touchlessSudo":{"isFirefighter":true,"hosts":"host01,host02","time":30}}`,
		"IFVer=6 SSHClientVersion=8.1 req=user@host.com HardKey=true",
		"IFVer=6 req=example_user@host.com SSHClientVersion=8.1 HardKey=true Touch2SSH=false github=false nonce=12345 TouchlessSudoHosts=host01,host02 IsFirefighter=true TouchlessSudoTime=30",
		`{"ifVer":"x"}`, `["x"," req=a@b "]`, `{"username":"u","hostname":"h","sshClientVersion":"8.1","touchlessSudo":null}`,
		`{"username":"u","hostname":"h","sshClientVersion":"8.1","exts":{"a":1},"exts":{"b":2},"EXTS":{"a":{"x":1},"a":{"y":2}}}`,
		`{"username":"u","hostname":"h","sshClientVersion":"8.1","touchlessSudo":{"hosts":"a"},"touchlessSudo":{"time":3}}`,
		`{"username":"u","hostname":"h","sshClientVersion":"8.1","touchlessSudo":{"hosts":"a"},"touchlessSudo":null,"touchlessSudo":{"time":3}}`,
		`{"username":"u","hostname":"h","sshClientVersion":"8.1","exts":{"a":1},"exts":null}`,
	} {
		emitDecode("corpus", t)
		emitLegacy("corpus-legacy", t)
	}

	// (i) grid: all boolean combinations x touchless-sudo shapes x interface versions x algorithm numbers
	tsShapes := []*message.TouchlessSudo{nil, {}, {IsFirefighter: true}, {Hosts: "h1,h2"}, {Time: 30}, {Time: -30}, {IsFirefighter: true, Hosts: "h1", Time: 60},
		{Hosts: "h1", Time: math.MaxInt64}, {IsFirefighter: true, Time: math.MinInt64}}
	for flags := 0; flags < 4; flags++ {
		for ti, ts := range tsShapes {
			for _, ifv := range []int{7, 6, 0, 8, -1} {
				for _, algo := range []int{0, 1, 3, -1} {
					if algo != 0 && ifv != 7 && ifv != 6 {
						continue
					}
					a := &message.Attributes{IfVer: ifv, Username: "user", Hostname: "host.com", SSHClientVersion: "8.1",
						CAPubKeyAlgo: x509.PublicKeyAlgorithm(algo), SignatureAlgo: x509.SignatureAlgorithm(algo * 2),
						HardKey: flags&1 != 0, Touch2SSH: flags&2 != 0}
					if ts != nil {
						cp := *ts
						a.TouchlessSudo = &cp
					}
					switch (ti + flags) % 3 {
					case 1:
						a.Exts = map[string]interface{}{}
					case 2:
						a.Exts = map[string]interface{}{"field1": "value1", "field2": float64(100), "n": map[string]interface{}{"b": []interface{}{nil, true, "x"}, "a": nil}}
					}
					emitRound("grid", a)
				}
			}
		}
	}
	// plain JSON-format sets (no extension map, no sudo block, no algorithm numbers) whose strings hold characters
	// that JSON and other quoting conventions spell differently: every C0 control, DEL, C1 controls, soft hyphen,
	// line / paragraph separators, byte-order mark, non-characters, private use, unassigned planes, astral code points,
	// quotes, backslashes, the HTML-sensitive characters
	oddChars := []rune{0x7f, 0x80, 0x85, 0x9f, 0xa0, 0xad, 0x2028, 0x2029, 0xfeff, 0xfffd, 0xfffe, 0xffff, 0xe000, 0x10000, 0x1f600, 0xe0001, 0xf0000,
		0x10fffe, 0x10ffff, 0x30000, '"', '\\', '/', '<', '>', '&', '\'', '`', '%', 0x2b7f}
	for ch := rune(0); ch < 0x20; ch++ {
		oddChars = append(oddChars, ch)
	}
	for i, ch := range oddChars {
		for field := 0; field < 3; field++ {
			if !c.Thorough() && (i+field)%3 != 0 && ch >= 0x20 && ch != 0x7f && ch < 0xe0000 {
				continue
			}
			a := &message.Attributes{IfVer: core.Pick(r, 7, 8), Username: "user", Hostname: "host.com", SSHClientVersion: "8.1",
				HardKey: i%2 == 0, Touch2SSH: i%3 == 0}
			odd := core.Pick(r, "", "a", "xy") + string(ch) + core.Pick(r, "", "b", "z9")
			switch field {
			case 0:
				a.Username = odd
			case 1:
				a.Hostname = odd
			default:
				a.SSHClientVersion = odd
			}
			if i%5 == 4 {
				a.Exts = map[string]interface{}{}
			}
			emitRound("plain-odd-characters", a)
		}
	}
	// required fields missing one at a time, both formats
	for _, ifv := range []int{7, 6} {
		for miss := 0; miss < 8; miss++ {
			a := &message.Attributes{IfVer: ifv, Username: "u", Hostname: "h", SSHClientVersion: "8.1", HardKey: true}
			if miss&1 != 0 {
				a.SSHClientVersion = ""
			}
			if miss&2 != 0 {
				a.Username = ""
			}
			if miss&4 != 0 {
				a.Hostname = ""
			}
			emitRound("missing-required", a)
		}
	}
	// legacy values probing the round-trip side conditions one at a time
	for _, v := range append(append([]string{}, dirtyAtoms...), cleanAtoms...) {
		for pos := 0; pos < 4; pos++ {
			a := &message.Attributes{IfVer: 6, Username: "user", Hostname: "host.com", SSHClientVersion: "8.1", Touch2SSH: true,
				TouchlessSudo: &message.TouchlessSudo{Hosts: "h1", Time: 5}}
			switch pos {
			case 0:
				a.SSHClientVersion = v
			case 1:
				a.Username = v
			case 2:
				a.Hostname = v
			default:
				a.TouchlessSudo.Hosts = v
			}
			emitRound("legacy-value-probe", a)
		}
	}

	// legacy values longer than any buffer somebody might read them through (64 KiB and beyond), free of blanks and '@'
	long := func(n int) string {
		b := make([]byte, n)
		for i := range b {
			b[i] = byte('a' + (i*7+n)%26)
		}
		return string(b)
	}
	for li, n := range []int{65535, 65536, 70000, 131072} {
		_ = li
		for pos := 0; pos < 4; pos++ {
			a := &message.Attributes{IfVer: 6, Username: "user", Hostname: "host.com", SSHClientVersion: "8.1", HardKey: true,
				TouchlessSudo: &message.TouchlessSudo{Hosts: "h1", Time: 5}}
			switch pos {
			case 0:
				a.SSHClientVersion = long(n)
			case 1:
				a.Username = long(n)
			case 2:
				a.Hostname = long(n)
			default:
				a.TouchlessSudo.Hosts = long(n)
			}
			// judged on the Go side (the round-trip sentence itself; a term of this size is too slow to evaluate in Coq)
			var out string
			var err error
			var back *message.Attributes
			if p, msg := core.Guard(func() {
				out, err = a.Marshal()
				if err == nil {
					back, err = message.Unmarshal(out)
				}
			}); p {
				c.Native("panic in the legacy round trip of a long value: "+msg, fmt.Sprintf("position %d, %d bytes", pos, n))
				continue
			}
			what := ""
			switch {
			case err != nil:
				what = "the encoder's own output is refused: " + err.Error()
			case back.SSHClientVersion != a.SSHClientVersion || back.Username != a.Username || back.Hostname != a.Hostname:
				what = "client version, user or host do not come back equal"
			case back.HardKey != a.HardKey || back.Touch2SSH != a.Touch2SSH:
				what = "a flag does not come back equal"
			case back.TouchlessSudo == nil || back.TouchlessSudo.Hosts != a.TouchlessSudo.Hosts || back.TouchlessSudo.Time != a.TouchlessSudo.Time:
				what = "the touchless-sudo fields do not come back equal"
			case back.IfVer != 6:
				what = fmt.Sprintf("interface version reported as %d", back.IfVer)
			}
			if what != "" {
				c.Native("legacy round trip of a value of "+fmt.Sprint(n)+" bytes (no blank, no '@'): "+what,
					map[string]interface{}{"field": []string{"sshClientVersion", "username", "hostname", "touchlessSudo.hosts"}[pos], "length": n})
			} else {
				c.NativeCheck(1)
			}
		}
	}

	// (ii) random attribute sets, both formats
	for i, n := 0, c.N(1500, 20000); i < n; i++ {
		emitRound("random-value", genAttrs(r))
	}
	// clean legacy sets (so that the legacy round-trip sentence is exercised densely)
	for i, n := 0, c.N(500, 8000); i < n; i++ {
		a := genAttrs(r)
		a.IfVer = core.Pick(r, 6, 6, 0, 5, -7)
		a.Username, a.Hostname, a.SSHClientVersion = genClean(r), genClean(r), genClean(r)
		if a.TouchlessSudo != nil && r.Intn(4) > 0 {
			a.TouchlessSudo.Hosts = genClean(r)
		}
		emitRound("random-clean-legacy", a)
	}

	// (iii) JSON decode stream: mutations of well-typed objects
	for i, n := 0, c.N(150, 2000); i < n; i++ {
		for fi := range attrNames {
			kvs := baseKVs(r)
			name := attrNames[fi]
			pos := -1
			for j := range kvs {
				if kvs[j].k == name {
					pos = j
				}
			}
			switch i % 6 {
			case 0: // delete one field
				if pos >= 0 {
					kvs = append(kvs[:pos:pos], kvs[pos+1:]...)
				}
				emitDecode("delete-field", renderObj(kvs))
			case 1: // rename in case / near miss
				if pos >= 0 {
					kvs[pos].k = caseVariant(r, kvs[pos].k)
				}
				emitDecode("rename-field", renderObj(kvs))
			case 2: // duplicate (merge semantics of pointer / map fields)
				dup := kv{name, typedValue(r, name)}
				if r.Intn(3) == 0 {
					dup.k = caseVariant(r, dup.k)
				}
				at := r.Intn(len(kvs) + 1)
				kvs = append(kvs[:at:at], append([]kv{dup}, kvs[at:]...)...)
				if r.Intn(3) == 0 {
					kvs = append(kvs, kv{name, typedValue(r, name)})
				}
				emitDecode("duplicate-field", renderObj(kvs))
			case 3: // retype
				if pos >= 0 {
					kvs[pos].v = genJSONValue(r, 2)
				} else {
					kvs = append(kvs, kv{name, genJSONValue(r, 2)})
				}
				emitDecode("retype-field", renderObj(kvs))
			case 4: // unknown keys / shuffle / whitespace
				kvs = append(kvs, kv{core.GenText(r), genJSONValue(r, 2)})
				r.Shuffle(len(kvs), func(a, b int) { kvs[a], kvs[b] = kvs[b], kvs[a] })
				emitDecode("extra-and-shuffle", core.Pick(r, "", " ", "\n\t")+renderObj(kvs)+core.Pick(r, "", " ", "\n"))
			default: // null for a field
				if pos >= 0 {
					kvs[pos].v = "null"
				} else {
					kvs = append(kvs, kv{name, "null"})
				}
				emitDecode("null-field", renderObj(kvs))
			}
		}
	}
	// arbitrary JSON values (objects, arrays, numbers, strings, null)
	for i, n := 0, c.N(300, 10000); i < n; i++ {
		emitDecode("arbitrary-json", genJSONValue(r, 3))
	}
	// JSON with a type error whose text contains legacy tokens (handed to the legacy parser)
	for i, n := 0, c.N(60, 2000); i < n; i++ {
		emitDecode("json-type-error-legacy", core.Pick(r, `["x"," `, `{"ifVer":"x","k":" `, `[1, `, `" `)+genLegacyText(r)+core.Pick(r, ` "]`, ` "}`, ` ]`, ` "`))
	}

	// polyglots: a JSON attribute object that decodes but fails the required-field check (a field missing or
	// empty), carrying blank-delimited legacy tokens inside a string value (top level, in exts, nested)
	for i, n := 0, c.N(120, 3000); i < n; i++ {
		kvs := baseKVs(r)
		req := []string{"username", "hostname", "sshClientVersion"}
		victim := req[r.Intn(len(req))]
		for j := 0; j < len(kvs); j++ {
			if kvs[j].k == victim {
				if r.Intn(2) == 0 {
					kvs = append(kvs[:j:j], kvs[j+1:]...)
				} else {
					kvs[j].v = `""`
				}
				break
			}
		}
		tok := " " + genLegacyText(r) + " "
		if r.Intn(2) == 0 {
			tok = " req=" + genClean(r) + "@" + genClean(r) + " SSHClientVersion=8.1 HardKey=true "
		}
		switch r.Intn(4) {
		case 0:
			kvs = append(kvs, kv{"exts", `{"note":` + jstr(tok) + `}`})
		case 1:
			kvs = append(kvs, kv{"exts", `{"a":{"b":[` + jstr(tok) + `]}}`})
		case 2:
			kvs = append(kvs, kv{core.GenText(r), jstr(tok)})
		default:
			other := req[(r.Intn(2)+1+indexOf(req, victim))%3]
			kvs = append(kvs, kv{other, jstr(tok)})
		}
		if r.Intn(2) == 0 {
			r.Shuffle(len(kvs), func(a, b int) { kvs[a], kvs[b] = kvs[b], kvs[a] })
		}
		emitDecode("json-incomplete-with-legacy-tokens", renderObj(kvs))
	}

	// (iv) legacy texts
	for i, n := 0, c.N(900, 16000); i < n; i++ {
		t := genLegacyText(r)
		if i%2 == 0 {
			emitDecode("legacy-text", t)
		} else {
			emitLegacy("legacy-text-direct", t)
		}
	}
	// corner cases spelled out: repeated keys, empty values, '=' inside values, stray spaces
	for _, t := range []string{
		"req=a@b req=c@d", "req=c@d req=a@b IFVer=1 IFVer=2", "HardKey=true HardKey=false req=u@h", "HardKey=false HardKey=true req=u@h",
		"req=u@h SSHClientVersion=", "req=u@h SSHClientVersion", "req= ", "req", "req=@", "=x req=u@h", "= req=u@h", "==", "req==u@h",
		"req=u@h x=a=b=c", "req=u=v@h=w", "  req=u@h  ", "req=u@h\n", "\treq=u@h", "req=u@h\u00a0", "\u3000req=u@h", "\u00a0req=u@h\u00a0", "req=u\u00a0@h", "req=u@h\u00a0HardKey=true", "req=u@h \u00a0 HardKey=true",
		"req=u@h\u00a0HardKey=true", "req=u @h", "req=u@h TouchlessSudoTime=99999999999999999999", "req=u@h TouchlessSudoTime=-99999999999999999999",
		"req=u@h TouchlessSudoTime=99999999999999999999x", "req=u@h IFVer=99999999999999999999x", "req=u@h IFVer=+6", "req=u@h IFVer=-0",
		"req=u@h IFVer=1_000", "req=u@h TouchlessSudoTime=\u0661\u0662", "IFVer=6 SSHClientVersion=8.1 req=user@host.com HardKey=true Touch2SSH=true IsFirefighter=true TouchlessSudoHosts=a,b TouchlessSudoTime=30",
	} {
		emitDecode("legacy-corner", t)
		emitLegacy("legacy-corner-direct", t)
	}

	// (v) arbitrary and truncated bytes (invalid UTF-8: no-panic oracle only)
	for i, n := 0, c.N(300, 10000); i < n; i++ {
		var b []byte
		switch r.Intn(3) {
		case 0:
			b = make([]byte, r.Intn(40))
			for j := range b {
				if r.Intn(3) == 0 {
					b[j] = byte(r.Intn(256))
				} else {
					const alphabet = `{}[]":,0123456789.-eEtruefalsn \=@reqIFVuhostxs`
					b[j] = alphabet[r.Intn(len(alphabet))]
				}
			}
		case 1:
			t := renderObj(baseKVs(r))
			b = []byte(t[:r.Intn(len(t)+1)])
		default:
			t := genLegacyText(r)
			b = []byte(t[:r.Intn(len(t)+1)])
			if len(b) > 0 && r.Intn(3) == 0 {
				b[r.Intn(len(b))] = byte(0x80 + r.Intn(0x80))
			}
		}
		emitDecode("arbitrary-bytes", string(b))
	}
}
