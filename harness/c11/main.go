// Correspondence harness for C11: concurrent shim-agent clients.
//
// Everything that touches the implementation runs in a child process (this
// binary re-executed with "c11child", and a race-detector build of the same
// package made at start-up), see child.go.  The parent turns the children's
// reports into cases for Coq (small histories -> linearisability search against
// the sequential reference of Model/C11Check.v; which methods wait for the
// server mutex -> compared with the regenerated facts table) and into Go-side
// oracle verdicts (reply/tag matching, completion watchdog, fatal run-time
// errors, data-race reports).
package main

import (
	"bufio"
	"bytes"
	"context"
	"encoding/json"
	"fmt"
	"os"
	"os/exec"
	"path/filepath"
	"strings"
	"time"

	"verifharness/core"
)

func main() {
	if len(os.Args) > 1 && os.Args[1] == "c11child" {
		childMain(os.Args[2:])
		return
	}
	core.Main("C11", &core.Driver{
		Imports:   "From Verif Require Import Lib.Base Model.Locks Model.C11Check.",
		CheckFn:   "C11Check.check",
		ClassFn:   "C11Check.classify",
		CaseType:  "C11Check.case",
		Run:       runC11,
		ShardSize: 150,
	})
}

type childResult struct {
	lines    []map[string]interface{}
	raw      []string
	stderr   string
	done     bool
	timedOut bool
	exitErr  error
}

func runChild(exe string, timeout time.Duration, env []string, args ...string) childResult {
	ctx, cancel := context.WithTimeout(context.Background(), timeout)
	defer cancel()
	cmd := exec.CommandContext(ctx, exe, append([]string{"c11child"}, args...)...)
	var so, se bytes.Buffer
	cmd.Stdout, cmd.Stderr = &so, &se
	cmd.Env = append(os.Environ(), env...)
	err := cmd.Run()
	res := childResult{stderr: se.String(), exitErr: err, timedOut: ctx.Err() == context.DeadlineExceeded}
	sc := bufio.NewScanner(&so)
	sc.Buffer(make([]byte, 1<<20), 1<<26)
	for sc.Scan() {
		var m map[string]interface{}
		if json.Unmarshal(sc.Bytes(), &m) == nil {
			if m["kind"] == "done" {
				res.done = true
				continue
			}
			res.lines = append(res.lines, m)
			res.raw = append(res.raw, sc.Text())
		}
	}
	return res
}

func excerpt(s string, n int) string {
	if len(s) > n {
		return s[:n] + "\n..."
	}
	return s
}

// abnormal reports a child that did not run to completion: hang, fatal error.
func abnormal(c *core.Ctx, what string, res childResult) bool {
	if res.done && res.exitErr == nil {
		return false
	}
	last := ""
	if len(res.raw) > 0 {
		last = res.raw[len(res.raw)-1]
	}
	input := map[string]interface{}{"child": what, "last_report": excerpt(last, 1500), "stderr": excerpt(res.stderr, 6000)}
	switch {
	case strings.Contains(res.stderr, "fatal error:"):
		i := strings.Index(res.stderr, "fatal error:")
		line := res.stderr[i:]
		if j := strings.IndexByte(line, '\n'); j > 0 {
			line = line[:j]
		}
		input["stderr"] = excerpt(res.stderr[i:], 6000)
		c.Native("fatal run-time error in the shim under concurrent clients: "+line, input)
	case strings.Contains(res.stderr, "HANG:") || res.timedOut:
		c.Native("deadlock/hang: operations did not complete ("+what+")", input)
	default:
		c.Native(fmt.Sprintf("child process for %s ended abnormally: %v", what, res.exitErr), input)
	}
	return true
}

func gN(i interface{}) string { return core.GN(uint64(i.(float64))) }

func gOp(op map[string]interface{}) string {
	a, b := op["a"], op["b"]
	switch op["k"] {
	case "add":
		return core.GApp("OAdd", gN(a))
	case "rmkey":
		return core.GApp("ORemoveKey", gN(a))
	case "rmcert":
		return core.GApp("ORemoveCert", gN(a))
	case "rmall":
		return "ORemoveAll"
	case "addhard":
		return core.GApp("OAddHard", gN(a), gN(b))
	case "list":
		return "OList"
	case "signers":
		return "OSigners"
	case "signkey":
		return core.GApp("OSignKey", gN(a))
	case "signcert":
		return core.GApp("OSignCert", gN(a), gN(b))
	case "lock":
		return core.GApp("OLock", gN(a))
	case "unlock":
		return core.GApp("OUnlock", gN(a))
	case "forward":
		return "OForward"
	case "extension":
		return "OExtension"
	}
	return "OList"
}

func gIDs(v interface{}) string {
	var items []string
	if l, ok := v.([]interface{}); ok {
		for _, x := range l {
			items = append(items, gN(x))
		}
	}
	return core.GList(items)
}

func gRep(rep map[string]interface{}) string {
	switch rep["k"] {
	case "ok":
		return "ROk"
	case "ids":
		return core.GApp("RIds", gIDs(rep["ids"]))
	}
	return "RErr"
}

func gSteps(v interface{}) string {
	var items []string
	if l, ok := v.([]interface{}); ok {
		for _, x := range l {
			st := x.(map[string]interface{})
			items = append(items, core.GPair(gOp(st["op"].(map[string]interface{})), gRep(st["rep"].(map[string]interface{}))))
		}
	}
	return core.GList(items)
}

func humanSteps(v interface{}) string {
	var parts []string
	if l, ok := v.([]interface{}); ok {
		for _, x := range l {
			st := x.(map[string]interface{})
			op, rep := st["op"].(map[string]interface{}), st["rep"].(map[string]interface{})
			s := fmt.Sprint(op["k"])
			if a, ok := op["a"].(float64); ok && a != 0 {
				s += fmt.Sprintf("(%v", a)
				if b, ok := op["b"].(float64); ok && b != 0 {
					s += fmt.Sprintf(",%v", b)
				}
				s += ")"
			}
			s += "->" + fmt.Sprint(rep["k"])
			if rep["k"] == "ids" {
				s += fmt.Sprint(rep["ids"])
			}
			parts = append(parts, s)
		}
	}
	return strings.Join(parts, "; ")
}

func buildRace(c *core.Ctx, tmp string) (string, error) {
	root := os.Getenv("VERIF_ROOT")
	if root == "" {
		if exe, err := os.Executable(); err == nil {
			root = filepath.Dir(filepath.Dir(exe)) // <root>/build/harness-C11
		}
	}
	hdir := filepath.Join(root, "harness")
	if _, err := os.Stat(filepath.Join(hdir, "go.mod")); err != nil {
		return "", fmt.Errorf("harness module not found at %s", hdir)
	}
	out := filepath.Join(tmp, "c11race")
	ctx, cancel := context.WithTimeout(context.Background(), 10*time.Minute)
	defer cancel()
	cmd := exec.CommandContext(ctx, "go", "build", "-race", "-tags", "verif", "-o", out, "./c11")
	cmd.Dir = hdir
	cmd.Env = append(os.Environ(), "GOFLAGS=-mod=mod", "GOPROXY=off", "GOSUMDB=off", "GOTOOLCHAIN=local", "CGO_ENABLED=1")
	if b, err := cmd.CombinedOutput(); err != nil {
		return "", fmt.Errorf("go build -race: %v: %s", err, excerpt(string(b), 800))
	}
	return out, nil
}

func stressReports(c *core.Ctx, what string, res childResult) {
	for _, m := range res.lines {
		switch m["kind"] {
		case "stress":
			c.StatN(what+"_ops", int(m["ops"].(float64)))
			if oc, ok := m["op_counts"].(map[string]interface{}); ok {
				for k, v := range oc {
					c.StatN("op_"+k, int(v.(float64)))
				}
			}
			c.Stat(fmt.Sprintf("%s_goroutines_%02d", what, int(m["goroutines"].(float64))))
			mm, _ := m["mismatches"].([]interface{})
			if len(mm) > 0 {
				c.Native(fmt.Sprintf("concurrent clients: %v", mm[0]), m)
			} else {
				c.NativeCheck(int(m["tag_checks"].(float64)) + 1)
			}
		case "setup-error":
			c.Note(what + ": setup error: " + fmt.Sprint(m["error"]))
		}
	}
}

func runC11(c *core.Ctx) {
	exe, err := os.Executable()
	if err != nil {
		exe = os.Args[0]
	}
	tmp, err := os.MkdirTemp("", "verif-c11-build-")
	if err != nil {
		c.Note("no temp dir: " + err.Error())
		return
	}
	defer os.RemoveAll(tmp)
	// children create their sockets and key rings under this directory, so that
	// nothing is left behind even when a child is killed or aborts on a hang
	os.Setenv("TMPDIR", tmp)

	// 0. (runs beside everything else) an upstream reply that takes 5.5 s: still delivered, nobody else's reply displaced
	slowCh := make(chan childResult, 1)
	go func() { slowCh <- runChild(exe, 90*time.Second, nil, "-kind", "slow", "-seed", fmt.Sprint(c.Seed+4)) }()
	defer func() {
		res := <-slowCh
		for _, m := range res.lines {
			switch m["kind"] {
			case "slow-problem":
				c.Native(fmt.Sprint(m["what"]), m)
			case "slow-ok":
				c.NativeCheck(1)
			}
		}
		abnormal(c, "history with a slow upstream reply", res)
	}()

	emitted := 0
	// 1. which methods wait for the server mutex (facts table vs run time)
	res := runChild(exe, 120*time.Second, nil, "-kind", "mode", "-seed", fmt.Sprint(c.Seed))
	for _, m := range res.lines {
		if m["kind"] == "mode" {
			name, blocks := m["method"].(string), m["blocks"].(bool)
			c.Case("mutex-mode", core.GApp("CMode", core.GStr(name), core.GBool(blocks)), m)
			emitted++
		}
	}
	abnormal(c, "mutex-mode probe", res)

	// 2. small histories for the linearisability search
	total := c.N(150, 4000)
	for batch, done := 0, 0; done < total; batch++ {
		n := 250
		if total-done < n {
			n = total - done
		}
		res := runChild(exe, time.Duration(60+n)*time.Second, nil, "-kind", "small", "-n", fmt.Sprint(n), "-seed", fmt.Sprint(c.Seed+int64(batch)*7919))
		for _, m := range res.lines {
			if m["kind"] != "small" {
				if m["kind"] == "setup-error" {
					c.Note("small history: setup error: " + fmt.Sprint(m["error"]))
				}
				continue
			}
			if ps, _ := m["panics"].([]interface{}); len(ps) > 0 {
				c.Native("panic in a shim operation: "+excerpt(fmt.Sprint(ps[0]), 1500), m)
				continue
			}
			ths, _ := m["threads"].([]interface{})
			var gth, hth []string
			nops := 0
			for _, t := range ths {
				gth = append(gth, gSteps(t))
				hth = append(hth, humanSteps(t))
				if l, ok := t.([]interface{}); ok {
					nops += len(l)
				}
			}
			human := map[string]interface{}{"via_connections": m["via_conn"], "no_upstream": m["no_upstream"], "initial_agent_keys": m["init_keys"],
				"threads": hth, "epilogue": humanSteps(m["epilogue"]), "final_agent_ids": m["agent_ids"]}
			nu := core.GBool(m["no_upstream"].(bool))
			emitted++
			if len(ths) == 1 {
				c.Case("sequential", core.GApp("CSeq", nu, gIDs(m["init_keys"]), gth[0], gSteps(m["epilogue"]), gIDs(m["agent_ids"])), human)
			} else {
				mode := "direct"
				if m["via_conn"].(bool) {
					mode = "connections"
				}
				c.Case(fmt.Sprintf("concurrent-%s-%dthreads", mode, len(ths)),
					core.GApp("CHist", nu, gIDs(m["init_keys"]), core.GList(gth), gSteps(m["epilogue"]), gIDs(m["agent_ids"])), human)
			}
		}
		if abnormal(c, "small histories", res) {
			break
		}
		done += n
	}

	if emitted == 0 {
		// bin/check needs at least one case file: the empty sequential history
		c.Case("empty", core.GApp("CSeq", "false", "[]", "[]", "[]", "[]"), "no history could be recorded (see the native violations)")
	}

	// 2b. a refused upstream reply in the middle of concurrent operation: everything still completes
	res = runChild(exe, 150*time.Second, nil, "-kind", "faulty", "-n", fmt.Sprint(c.N(8, 60)), "-seed", fmt.Sprint(c.Seed+3))
	for _, m := range res.lines {
		switch m["kind"] {
		case "faulty-problem":
			c.Native(fmt.Sprint(m["what"]), m)
		case "faulty-ok":
			c.NativeCheck(1)
		}
	}
	abnormal(c, "histories with a refused upstream reply", res)

	// 3. stress histories: reply matching, completion, no fatal error
	nStress := c.N(6, 90)
	millis := 1500
	res = runChild(exe, time.Duration(nStress)*(25*time.Second)+60*time.Second, nil,
		"-kind", "stress", "-n", fmt.Sprint(nStress), "-millis", fmt.Sprint(millis), "-seed", fmt.Sprint(c.Seed+1))
	stressReports(c, "stress", res)
	abnormal(c, "stress histories", res)

	// 4. the same workload under the race detector
	raceExe, err := buildRace(c, tmp)
	if err != nil {
		c.Note("race-detector build unavailable: " + err.Error())
		c.Stat("race_build_failed")
		return
	}
	nRace := c.N(4, 60)
	res = runChild(raceExe, time.Duration(nRace)*(30*time.Second)+90*time.Second, []string{"GORACE=halt_on_error=0 history_size=3"},
		"-kind", "stress", "-n", fmt.Sprint(nRace), "-millis", fmt.Sprint(millis), "-seed", fmt.Sprint(c.Seed+2))
	stressReports(c, "race", res)
	if i := strings.Index(res.stderr, "WARNING: DATA RACE"); i >= 0 {
		report := res.stderr[i:]
		if j := strings.Index(report, "=================="); j > 0 {
			report = report[:j]
		}
		n := strings.Count(res.stderr, "WARNING: DATA RACE")
		c.Native(fmt.Sprintf("data race reported by the Go race detector (%d report(s)) under concurrent shim clients", n),
			map[string]interface{}{"first_report": excerpt(report, 6000)})
	} else if res.done {
		c.NativeCheck(1)
		c.Stat("race_detector_clean_runs")
	}
	// the race runtime exits with status 66 when it has reported races: not a hang
	if !strings.Contains(res.stderr, "WARNING: DATA RACE") {
		abnormal(c, "stress histories under the race detector", res)
	}
}
