package main

import (
	"bytes"
	"crypto/ed25519"
	"encoding/binary"
	"fmt"
	"io"
	"math/rand"
	"net"
	"os"
	"path/filepath"
	"sync"
	"sync/atomic"
	"time"

	"github.com/theparanoids/ysshra/agent/shimagent"
	"github.com/theparanoids/ysshra/agent/yubiagent"
	"github.com/theparanoids/ysshra/keyid"
	"golang.org/x/crypto/ssh"
	"golang.org/x/crypto/ssh/agent"
	"verifharness/core"
)

// ---- the underlying agent: a frame-level ssh-agent server -----------------
//
// Standard requests (list, sign, add, remove, remove-all, lock, unlock) are
// answered by x/crypto's server over one key ring; every other request
// (extensions, unknown codes forwarded raw by the shim) is answered with
// 0xEC followed by the complete request: an echo the caller can match against
// its own unique tag.

const echoMark = 0xEC

type upstream struct {
	dir     string
	sock    string
	ln      net.Listener
	keyring agent.Agent
	mu      sync.Mutex
	conns   []net.Conn
}

type oneShot struct {
	in  *bytes.Reader
	out *bytes.Buffer
}

func (o *oneShot) Read(p []byte) (int, error)  { return o.in.Read(p) }
func (o *oneShot) Write(p []byte) (int, error) { return o.out.Write(p) }

// faultMark: first byte of a raw request that the upstream answers with an oversized length prefix
const faultMark = 0xEE

// slowMark: first byte of a raw request that the upstream answers (with the usual echo) only after the number of
// milliseconds given in the next two bytes - a helper behind the agent that takes its time (a token waiting for a touch)
const slowMark = 0xED

// countMark: first byte of a raw request that the upstream answers, after the number of milliseconds given in the next
// two bytes, with the usual echo followed by the running number of such requests it has served: a request whose reply
// depends on the agent's state (as removing a smartcard key does - success the first time, failure the second)
const countMark = 0xEB

var countServed uint64

// listDelayMs: while non-zero, the upstream takes this long to answer a request for its identities (a token that is slow
// to enumerate): whatever was started and not awaited is still outstanding when the next operation begins
var listDelayMs int32

func startUpstream() (*upstream, error) {
	dir, err := os.MkdirTemp("", "verif-c11-")
	if err != nil {
		return nil, err
	}
	u := &upstream{dir: dir, sock: filepath.Join(dir, "a.sock"), keyring: agent.NewKeyring()}
	ln, err := net.Listen("unix", u.sock)
	if err != nil {
		os.RemoveAll(dir)
		return nil, err
	}
	u.ln = ln
	go func() {
		for {
			c, err := ln.Accept()
			if err != nil {
				return
			}
			u.mu.Lock()
			u.conns = append(u.conns, c)
			u.mu.Unlock()
			go u.serve(c)
		}
	}()
	return u, nil
}

func (u *upstream) serve(c net.Conn) {
	defer c.Close()
	var hdr [4]byte
	for {
		if _, err := io.ReadFull(c, hdr[:]); err != nil {
			return
		}
		n := binary.BigEndian.Uint32(hdr[:])
		if n == 0 || n > 1<<24 {
			return
		}
		req := make([]byte, n)
		if _, err := io.ReadFull(c, req); err != nil {
			return
		}
		var reply []byte // complete frame, with its length prefix
		switch req[0] {
		case faultMark:
			// a reply the shim must refuse: a length prefix above the 16 MiB bound (and no body)
			reply = make([]byte, 4)
			binary.BigEndian.PutUint32(reply, 16<<20+1)
		case 1, 11, 13, 17, 18, 19, 22, 23, 25:
			if d := atomic.LoadInt32(&listDelayMs); d > 0 && req[0] == 11 {
				time.Sleep(time.Duration(d) * time.Millisecond)
			}
			frame := append(append([]byte{}, hdr[:]...), req...)
			o := &oneShot{in: bytes.NewReader(frame), out: &bytes.Buffer{}}
			_ = agent.ServeAgent(u.keyring, o)
			reply = o.out.Bytes()
		case countMark:
			if len(req) >= 3 {
				time.Sleep(time.Duration(int(req[1])<<8|int(req[2])) * time.Millisecond)
			}
			var n [8]byte
			binary.BigEndian.PutUint64(n[:], atomic.AddUint64(&countServed, 1))
			body := append(append([]byte{echoMark}, req...), n[:]...)
			reply = make([]byte, 4+len(body))
			binary.BigEndian.PutUint32(reply, uint32(len(body)))
			copy(reply[4:], body)
		case slowMark:
			if len(req) >= 3 {
				time.Sleep(time.Duration(int(req[1])<<8|int(req[2])) * time.Millisecond)
			}
			fallthrough
		default:
			body := append([]byte{echoMark}, req...)
			reply = make([]byte, 4+len(body))
			binary.BigEndian.PutUint32(reply, uint32(len(body)))
			copy(reply[4:], body)
		}
		// write in two pieces: a reply is not one atomic write on a real socket either
		half := len(reply) / 2
		if _, err := c.Write(reply[:half]); err != nil {
			return
		}
		if _, err := c.Write(reply[half:]); err != nil {
			return
		}
	}
}

func (u *upstream) close() {
	u.ln.Close()
	u.mu.Lock()
	for _, c := range u.conns {
		c.Close()
	}
	u.mu.Unlock()
	os.RemoveAll(u.dir)
}

// ---- key material ----------------------------------------------------------

type material struct {
	privs  []ed25519.PrivateKey
	pubs   []ssh.PublicKey // plain keys, id = index+1
	ca     ssh.Signer
	certs  []*ssh.Certificate // hardware certificates, id = 1000 + index+1
	certOf []int              // certs[i] is over key pubs[certOf[i]]
	byBlob map[string]int     // marshalled public key / certificate -> id
}

type rngReader struct{ r *rand.Rand }

func (r rngReader) Read(p []byte) (int, error) {
	for i := range p {
		p[i] = byte(r.r.Intn(256))
	}
	return len(p), nil
}

func newMaterial(r *rand.Rand, nkeys int) *material {
	m := &material{byBlob: map[string]int{}}
	rd := rngReader{r}
	_, caPriv, _ := ed25519.GenerateKey(rd)
	m.ca, _ = ssh.NewSignerFromKey(caPriv)
	for i := 0; i < nkeys; i++ {
		_, priv, _ := ed25519.GenerateKey(rd)
		s, _ := ssh.NewSignerFromKey(priv)
		m.privs = append(m.privs, priv)
		m.pubs = append(m.pubs, s.PublicKey())
		m.byBlob[string(s.PublicKey().Marshal())] = i + 1
	}
	return m
}

// newCert makes a user certificate over plain key k (index), valid until
// `until`; keyID is its KeyId text.
func (m *material) newCert(r *rand.Rand, k int, until time.Time, keyID string) *ssh.Certificate {
	c := &ssh.Certificate{
		Key: m.pubs[k], CertType: ssh.UserCert, KeyId: keyID, Serial: uint64(len(m.certs) + 1),
		ValidPrincipals: []string{"verif"},
		ValidAfter:      uint64(time.Now().Add(-time.Hour).Unix()), ValidBefore: uint64(until.Unix()),
	}
	if err := c.SignCert(rngReader{r}, m.ca); err != nil {
		panic(err)
	}
	return c
}

func (m *material) addHardCert(r *rand.Rand, k int, until time.Time) int {
	c := m.newCert(r, k, until, fmt.Sprintf("verif-hw-%d", len(m.certs)+1))
	m.certs = append(m.certs, c)
	m.certOf = append(m.certOf, k)
	id := 1000 + len(m.certs)
	m.byBlob[string(c.Marshal())] = id
	return len(m.certs) - 1
}

func (m *material) addedKey(k int) agent.AddedKey {
	return agent.AddedKey{PrivateKey: &m.privs[k], Comment: fmt.Sprintf("k%d", k+1)}
}

func (m *material) idOf(blob []byte) int {
	if id, ok := m.byBlob[string(blob)]; ok {
		return id
	}
	return 9999
}

// ysshcaKeyID is a KeyId text that keyid.Unmarshal accepts (an "upstream YSSHCA certificate").
func ysshcaKeyID() string {
	k := &keyid.KeyID{Principals: []string{"verif"}, TransID: "t", ReqUser: "u", ReqIP: "10.0.0.1", ReqHost: "h",
		TouchPolicy: keyid.NeverTouch, Version: keyid.DefaultVersion}
	s, err := k.Marshal()
	if err != nil {
		panic(err)
	}
	return s
}

// ---- the system under test -------------------------------------------------

// caller is what one goroutine uses to issue operations: the shim itself, or a
// yubiagent client whose connection is served by its own ServeAgent goroutine.
type caller interface {
	List() ([]*agent.Key, error)
	Signers() ([]ssh.Signer, error)
	Sign(key ssh.PublicKey, data []byte) (*ssh.Signature, error)
	Add(key agent.AddedKey) error
	Remove(key ssh.PublicKey) error
	RemoveAll() error
	Lock(p []byte) error
	Unlock(p []byte) error
	AddHardCert(key ssh.PublicKey, comment string) error
	Extension(t string, contents []byte) ([]byte, error)
	Forward(req []byte) ([]byte, error)
}

type sut struct {
	up      *upstream
	direct  shimagent.ShimAgent // nil in connection mode
	srv     yubiagent.YubiAgent // connection mode
	viaConn bool
	wg      sync.WaitGroup
	mu      sync.Mutex
	panics  []string
	pipes   []net.Conn
}

func newSUT(viaConn, noUpstream bool, comp func(a, b ssh.PublicKey) bool) (*sut, error) {
	up, err := startUpstream()
	if err != nil {
		return nil, err
	}
	s := &sut{up: up, viaConn: viaConn}
	if viaConn {
		s.srv, err = yubiagent.NewServer(up.sock, true)
	} else {
		s.direct, err = shimagent.New(shimagent.Option{Address: up.sock, NoUpstream: noUpstream, PubKeyComp: comp})
	}
	if err != nil {
		up.close()
		return nil, err
	}
	return s, nil
}

// caller returns the handle for one goroutine.
func (s *sut) caller() (caller, error) {
	if !s.viaConn {
		return s.direct, nil
	}
	cc, sc := net.Pipe()
	s.mu.Lock()
	s.pipes = append(s.pipes, cc, sc)
	s.mu.Unlock()
	s.wg.Add(1)
	go func() {
		defer s.wg.Done()
		if p, msg := core.Guard(func() { _ = yubiagent.ServeAgent(s.srv, sc) }); p {
			s.mu.Lock()
			s.panics = append(s.panics, msg)
			s.mu.Unlock()
		}
		sc.Close()
	}()
	return yubiagent.NewClientFromConn(cc)
}

func (s *sut) close() {
	s.mu.Lock()
	for _, p := range s.pipes {
		p.Close()
	}
	s.mu.Unlock()
	done := make(chan struct{})
	go func() { s.wg.Wait(); close(done) }()
	select {
	case <-done:
	case <-time.After(2 * time.Second):
	}
	if s.direct != nil {
		core.Guard(func() { _ = s.direct.Close() })
	}
	if s.srv != nil {
		core.Guard(func() { _ = s.srv.Close() })
	}
	s.up.close()
}
