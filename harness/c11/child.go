package main

import (
	"bytes"
	"encoding/binary"
	"encoding/json"
	"flag"
	"fmt"
	"io"
	"log"
	"math/rand"
	"os"
	"runtime"
	"sort"
	"strings"
	"sync"
	"sync/atomic"
	"time"

	"github.com/theparanoids/ysshra/agent/shimagent"
	"golang.org/x/crypto/ssh"
	"verifharness/core"
)

// The implementation is only ever run in a child process (this binary
// re-executed, or its race-detector build): a fatal run-time error such as
// "concurrent map writes" or a deadlock then is an observation of the parent,
// not a crash of the harness.  One JSON object per line on stdout.

func emit(v interface{}) {
	b, _ := json.Marshal(v)
	os.Stdout.Write(append(b, '\n'))
}

func childMain(args []string) {
	fs := flag.NewFlagSet("c11child", flag.ExitOnError)
	kind := fs.String("kind", "stress", "stress|small|mode")
	seed := fs.Int64("seed", 1, "seed")
	n := fs.Int("n", 1, "number of histories")
	millis := fs.Int("millis", 1200, "duration of one stress history")
	fs.Parse(args)
	log.SetOutput(io.Discard) // x/crypto's agent server logs every failed request
	r := rand.New(rand.NewSource(*seed))
	switch *kind {
	case "stress":
		for i := 0; i < *n; i++ {
			stressHistory(r, i, time.Duration(*millis)*time.Millisecond)
		}
	case "small":
		for i := 0; i < *n; i++ {
			smallHistory(r, i)
		}
	case "mode":
		modeProbe(r)
	case "slow":
		twoShimsOneUpstream(r)
		refusedThenForward(r)
		identicalForwards(r)
		slowForward(r)
	case "faulty":
		for i := 0; i < *n; i++ {
			faultyForward(r, i)
		}
	}
	emit(map[string]interface{}{"kind": "done"})
}

// watchdog aborts the child when a history does not finish: every operation
// must complete.
func watchdog(what string, d time.Duration) (stop func()) {
	t := time.AfterFunc(d, func() {
		buf := make([]byte, 1<<20)
		buf = buf[:runtime.Stack(buf, true)]
		emit(map[string]interface{}{"kind": "hang", "what": what})
		fmt.Fprintf(os.Stderr, "HANG: %s did not finish within %v\n%s\n", what, d, buf)
		os.Exit(3)
	})
	return func() { t.Stop() }
}

// ---- tagged requests --------------------------------------------------------

var tagCounter uint64

func newTag() []byte {
	var t [12]byte
	copy(t[:4], "TAG:")
	binary.BigEndian.PutUint64(t[4:], atomic.AddUint64(&tagCounter, 1))
	return t[:]
}

func padded(r *rand.Rand, tag []byte) []byte {
	n := 0
	switch r.Intn(4) {
	case 0:
		n = r.Intn(64)
	case 1:
		n = 512 + r.Intn(1024)
	case 2:
		n = 4096 + r.Intn(8192)
	}
	p := make([]byte, len(tag)+n)
	copy(p, tag)
	for i := len(tag); i < len(p); i++ {
		p[i] = byte(i)
	}
	return p
}

// forwardTagged sends an unknown raw request carrying a unique tag and says
// whether the reply is the echo of exactly this request.
func forwardTagged(c caller, r *rand.Rand) (ok bool, detail string) {
	tag := newTag()
	req := append([]byte{0xF0}, padded(r, tag)...)
	resp, err := c.Forward(req)
	if err != nil {
		return false, fmt.Sprintf("Forward(%x): error %q instead of the echo", tag, err.Error())
	}
	want := append([]byte{echoMark}, req...)
	if !bytes.Equal(resp, want) {
		return false, fmt.Sprintf("Forward(%x): reply is not the echo of this request: %s", tag, describeReply(resp))
	}
	return true, ""
}

func extensionTagged(c caller, r *rand.Rand) (ok bool, detail string) {
	tag := newTag()
	payload := padded(r, tag)
	resp, err := c.Extension("verif@c11", payload)
	if err != nil {
		return false, fmt.Sprintf("Extension(%x): error %q instead of the echo", tag, err.Error())
	}
	if len(resp) < 2 || resp[0] != echoMark || resp[1] != 27 || !bytes.HasSuffix(resp, payload) || bytes.Count(resp, []byte("TAG:")) != 1 {
		return false, fmt.Sprintf("Extension(%x): reply is not the echo of this request: %s", tag, describeReply(resp))
	}
	return true, ""
}

func describeReply(resp []byte) string {
	i := bytes.Index(resp, []byte("TAG:"))
	if i >= 0 && i+12 <= len(resp) {
		return fmt.Sprintf("%d bytes carrying tag %x", len(resp), resp[i:i+12])
	}
	if len(resp) > 24 {
		return fmt.Sprintf("%d bytes %x...", len(resp), resp[:24])
	}
	return fmt.Sprintf("%d bytes %x", len(resp), resp)
}

func desyncError(err error) bool {
	if err == nil {
		return false
	}
	s := err.Error()
	for _, pat := range []string{"client error", "EOF", "too large", "unmarshal", "short", "closed pipe", "unexpected message", "parse error", "unreachable"} {
		if strings.Contains(s, pat) {
			return true
		}
	}
	return false
}

// ---- stress histories (native oracles) ---------------------------------------

func stressHistory(r *rand.Rand, idx int, dur time.Duration) {
	viaConn := idx%3 == 2
	noUp := idx%3 == 1
	g := 2 + r.Intn(15)
	if idx == 0 {
		g = 16
	}
	what := fmt.Sprintf("stress history %d (%d goroutines, viaConn=%v, noUpstream=%v)", idx, g, viaConn, noUp)
	stop := watchdog(what, 20*time.Second+dur)
	defer stop()

	m := newMaterial(r, 6)
	s, err := newSUT(viaConn, noUp, nil)
	if err != nil {
		emit(map[string]interface{}{"kind": "setup-error", "error": err.Error()})
		return
	}
	// initial content of the underlying agent: four plain keys, two upstream
	// YSSHCA certificates (hidden in no-upstream mode: exercises the cache)
	for k := 0; k < 4; k++ {
		_ = s.up.keyring.Add(m.addedKey(k))
	}
	for k := 4; k < 6; k++ {
		ak := m.addedKey(k)
		ak.Certificate = m.newCert(r, k, time.Now().Add(time.Hour), ysshcaKeyID())
		_ = s.up.keyring.Add(ak)
	}
	// hardware certificates: some expire during the run, so that purging of
	// expired certificates happens concurrently with everything else
	now := time.Now()
	for i := 0; i < 8; i++ {
		until := now.Add(time.Hour)
		if i%2 == 0 {
			until = now.Add(time.Second + time.Duration(i)*150*time.Millisecond)
		}
		m.addHardCert(r, i%4, until)
	}

	var mismatches []string
	var mmu sync.Mutex
	report := func(s string) {
		mmu.Lock()
		if len(mismatches) < 20 {
			mismatches = append(mismatches, s)
		}
		mmu.Unlock()
	}
	var ops, tagChecks int64
	opCount := map[string]*int64{}
	for _, k := range []string{"list", "signers", "sign", "add", "remove", "removeall", "addhard", "lock", "unlock", "extension", "forward"} {
		opCount[k] = new(int64)
	}
	callers := make([]caller, g)
	for i := range callers {
		c, err := s.caller()
		if err != nil {
			emit(map[string]interface{}{"kind": "setup-error", "error": err.Error()})
			s.close()
			return
		}
		callers[i] = c
	}
	// seed some hardware certificates before the goroutines start
	for i := 0; i < 4; i++ {
		_ = callers[0].AddHardCert(m.certs[i], "hw")
	}
	deadline := time.Now().Add(dur)
	var wg sync.WaitGroup
	for gi := 0; gi < g; gi++ {
		wg.Add(1)
		gr := rand.New(rand.NewSource(r.Int63()))
		c := callers[gi]
		go func(gi int) {
			defer wg.Done()
			if p, msg := core.Guard(func() {
				for time.Now().Before(deadline) {
					atomic.AddInt64(&ops, 1)
					var err error
					switch x := gr.Intn(100); {
					case x < 14:
						atomic.AddInt64(opCount["forward"], 1)
						ok, d := forwardTagged(c, gr)
						atomic.AddInt64(&tagChecks, 1)
						if !ok {
							report(d)
						}
					case x < 28:
						atomic.AddInt64(opCount["extension"], 1)
						ok, d := extensionTagged(c, gr)
						atomic.AddInt64(&tagChecks, 1)
						if !ok {
							report(d)
						}
					case x < 42:
						atomic.AddInt64(opCount["list"], 1)
						_, err = c.List()
					case x < 54:
						atomic.AddInt64(opCount["signers"], 1)
						_, err = c.Signers()
					case x < 66:
						atomic.AddInt64(opCount["sign"], 1)
						if gr.Intn(2) == 0 {
							_, err = c.Sign(m.pubs[gr.Intn(len(m.pubs))], []byte("data"))
						} else {
							_, err = c.Sign(m.certs[gr.Intn(len(m.certs))], []byte("data"))
						}
					case x < 76:
						atomic.AddInt64(opCount["addhard"], 1)
						err = c.AddHardCert(m.certs[gr.Intn(len(m.certs))], "hw")
					case x < 84:
						atomic.AddInt64(opCount["add"], 1)
						err = c.Add(m.addedKey(gr.Intn(4)))
					case x < 91:
						atomic.AddInt64(opCount["remove"], 1)
						if gr.Intn(2) == 0 {
							err = c.Remove(m.pubs[gr.Intn(4)])
						} else {
							err = c.Remove(m.certs[gr.Intn(len(m.certs))])
						}
					case x < 93:
						atomic.AddInt64(opCount["removeall"], 1)
						err = c.RemoveAll()
					default:
						pass := []byte(fmt.Sprintf("pass-%d", gi))
						atomic.AddInt64(opCount["lock"], 1)
						if err = c.Lock(pass); err == nil {
							atomic.AddInt64(opCount["unlock"], 1)
							if e := c.Unlock(pass); e != nil {
								report(fmt.Sprintf("Unlock with the passphrase of the successful Lock failed: %q", e.Error()))
							}
						} else {
							atomic.AddInt64(opCount["unlock"], 1)
							_ = c.Unlock([]byte("wrong"))
						}
					}
					if desyncError(err) {
						report(fmt.Sprintf("operation failed with a protocol error: %q", err.Error()))
					}
				}
			}); p {
				report("panic in an operation: " + msg)
			}
		}(gi)
	}
	wg.Wait()
	// afterwards the shim must still be usable and in step with the agent
	post := true
	c := callers[0]
	for gi := 0; gi < g; gi++ {
		_ = c.Unlock([]byte(fmt.Sprintf("pass-%d", gi)))
	}
	for i := 0; i < 6; i++ {
		var ok bool
		var d string
		if i%2 == 0 {
			ok, d = forwardTagged(c, r)
		} else {
			ok, d = extensionTagged(c, r)
		}
		if !ok {
			post = false
			report("after the run: " + d)
		}
	}
	if _, err := c.List(); err != nil {
		post = false
		report("after the run: List failed: " + err.Error())
	}
	s.mu.Lock()
	for _, p := range s.panics {
		report("panic while serving a connection: " + p)
	}
	s.mu.Unlock()
	s.close()
	counts := map[string]int64{}
	for k, v := range opCount {
		counts[k] = *v
	}
	emit(map[string]interface{}{"kind": "stress", "idx": idx, "goroutines": g, "via_conn": viaConn, "no_upstream": noUp,
		"ops": ops, "tag_checks": tagChecks, "mismatches": mismatches, "post_ok": post, "op_counts": counts})
}

// ---- small histories (for the linearisability search in Coq) ------------------

type sOp struct {
	Kind string `json:"k"`
	A    int    `json:"a"`
	B    int    `json:"b"`
}
type sRep struct {
	Kind string `json:"k"` // ok | err | ids
	IDs  []int  `json:"ids,omitempty"`
}
type sStep struct {
	Op  sOp  `json:"op"`
	Rep sRep `json:"rep"`
}

func idsOfKeys(m *material, blobs [][]byte) []int {
	ids := []int{}
	for _, b := range blobs {
		ids = append(ids, m.idOf(b))
	}
	sort.Ints(ids)
	// the model lists sets
	out := ids[:0]
	for i, id := range ids {
		if i == 0 || id != ids[i-1] {
			out = append(out, id)
		}
	}
	return out
}

func doSmall(c caller, m *material, r *rand.Rand, op sOp) sRep {
	errRep := func(err error) sRep {
		if err != nil {
			return sRep{Kind: "err"}
		}
		return sRep{Kind: "ok"}
	}
	switch op.Kind {
	case "add":
		return errRep(c.Add(m.addedKey(op.A - 1)))
	case "rmkey":
		return errRep(c.Remove(m.pubs[op.A-1]))
	case "rmcert":
		return errRep(c.Remove(m.certs[op.A-1]))
	case "rmall":
		return errRep(c.RemoveAll())
	case "addhard":
		return errRep(c.AddHardCert(m.certs[op.A-1], "hw"))
	case "list":
		keys, err := c.List()
		if err != nil {
			return sRep{Kind: "err"}
		}
		var blobs [][]byte
		for _, k := range keys {
			blobs = append(blobs, k.Marshal())
		}
		return sRep{Kind: "ids", IDs: idsOfKeys(m, blobs)}
	case "signers":
		ss, err := c.Signers()
		if err != nil {
			return sRep{Kind: "err"}
		}
		var blobs [][]byte
		for _, s := range ss {
			blobs = append(blobs, s.PublicKey().Marshal())
		}
		return sRep{Kind: "ids", IDs: idsOfKeys(m, blobs)}
	case "signkey":
		_, err := c.Sign(m.pubs[op.A-1], []byte("data"))
		return errRep(err)
	case "signcert":
		_, err := c.Sign(m.certs[op.A-1], []byte("data"))
		return errRep(err)
	case "lock":
		return errRep(c.Lock([]byte(fmt.Sprintf("p%d", op.A))))
	case "unlock":
		return errRep(c.Unlock([]byte(fmt.Sprintf("p%d", op.A))))
	case "forward":
		ok, _ := forwardTagged(c, r)
		if ok {
			return sRep{Kind: "ok"}
		}
		return sRep{Kind: "err"}
	case "extension":
		ok, _ := extensionTagged(c, r)
		if ok {
			return sRep{Kind: "ok"}
		}
		return sRep{Kind: "err"}
	}
	return sRep{Kind: "err"}
}

func genSmallOp(r *rand.Rand, m *material, viaConn bool) sOp {
	for {
		switch x := r.Intn(100); {
		case x < 12:
			return sOp{Kind: "add", A: 1 + r.Intn(len(m.pubs))}
		case x < 24:
			return sOp{Kind: "rmkey", A: 1 + r.Intn(len(m.pubs))}
		case x < 32:
			return sOp{Kind: "rmcert", A: 1 + r.Intn(len(m.certs))}
		case x < 35:
			return sOp{Kind: "rmall"}
		case x < 50:
			c := r.Intn(len(m.certs))
			return sOp{Kind: "addhard", A: c + 1, B: m.certOf[c] + 1}
		case x < 62:
			return sOp{Kind: "list"}
		case x < 68:
			if viaConn { // through a connection Signers is a List request: not the shim's Signers
				continue
			}
			return sOp{Kind: "signers"}
		case x < 74:
			return sOp{Kind: "signkey", A: 1 + r.Intn(len(m.pubs))}
		case x < 80:
			c := r.Intn(len(m.certs))
			return sOp{Kind: "signcert", A: c + 1, B: m.certOf[c] + 1}
		case x < 85:
			return sOp{Kind: "lock", A: 1 + r.Intn(2)}
		case x < 90:
			return sOp{Kind: "unlock", A: 1 + r.Intn(2)}
		case x < 95:
			return sOp{Kind: "forward"}
		default:
			return sOp{Kind: "extension"}
		}
	}
}

func smallHistory(r *rand.Rand, idx int) {
	stop := watchdog(fmt.Sprintf("small history %d", idx), 20*time.Second)
	defer stop()
	viaConn := idx%4 == 3
	noUp := idx%4 == 1
	m := newMaterial(r, 4)
	for i := 0; i < 4; i++ {
		m.addHardCert(r, r.Intn(4), time.Now().Add(time.Hour))
	}
	s, err := newSUT(viaConn, noUp, nil)
	if err != nil {
		emit(map[string]interface{}{"kind": "setup-error", "error": err.Error()})
		return
	}
	var initKeys []int
	for k := 0; k < 4; k++ {
		if r.Intn(2) == 0 {
			_ = s.up.keyring.Add(m.addedKey(k))
			initKeys = append(initKeys, k+1)
		}
	}
	// every 5th history is sequential: it validates the reference model itself
	nth := 2 + r.Intn(2)
	maxOps := 3
	if idx%5 == 4 {
		nth, maxOps = 1, 10
	}
	progs := make([][]sOp, nth)
	for t := range progs {
		n := 1 + r.Intn(maxOps)
		if nth == 1 {
			n = 5 + r.Intn(6)
		}
		for i := 0; i < n; i++ {
			progs[t] = append(progs[t], genSmallOp(r, m, viaConn))
		}
	}
	callers := make([]caller, nth)
	for t := range callers {
		if callers[t], err = s.caller(); err != nil {
			emit(map[string]interface{}{"kind": "setup-error", "error": err.Error()})
			s.close()
			return
		}
	}
	results := make([][]sStep, nth)
	start := make(chan struct{})
	var wg sync.WaitGroup
	var panics []string
	var pmu sync.Mutex
	for t := 0; t < nth; t++ {
		wg.Add(1)
		gr := rand.New(rand.NewSource(r.Int63()))
		go func(t int) {
			defer wg.Done()
			<-start
			if p, msg := core.Guard(func() {
				for _, op := range progs[t] {
					results[t] = append(results[t], sStep{op, doSmall(callers[t], m, gr, op)})
				}
			}); p {
				pmu.Lock()
				panics = append(panics, msg)
				pmu.Unlock()
			}
		}(t)
	}
	close(start)
	wg.Wait()
	// epilogue, sequential: unlock attempts, a listing; then the agent's own view
	var epi []sStep
	for _, op := range []sOp{{Kind: "unlock", A: 1}, {Kind: "unlock", A: 2}, {Kind: "list"}} {
		epi = append(epi, sStep{op, doSmall(callers[0], m, r, op)})
	}
	var blobs [][]byte
	if keys, err := s.up.keyring.List(); err == nil {
		for _, k := range keys {
			blobs = append(blobs, k.Marshal())
		}
	}
	agentIDs := idsOfKeys(m, blobs)
	s.mu.Lock()
	panics = append(panics, s.panics...)
	s.mu.Unlock()
	s.close()
	emit(map[string]interface{}{"kind": "small", "idx": idx, "via_conn": viaConn, "no_upstream": noUp, "init_keys": initKeys,
		"threads": results, "epilogue": epi, "agent_ids": agentIDs, "panics": panics})
}

// ---- which methods wait for the server mutex -----------------------------------
//
// A List call is parked inside the caller-supplied key comparison function
// (called by sort.Slice while List holds the server mutex, with no agent round
// trip in progress); a second goroutine then calls the method under test.

// faultyForward: the upstream answers one raw request with a reply the shim has to refuse, while other clients
// keep operating: the refused forward returns an error and EVERY operation - the failed one, those running
// beside it and those issued afterwards - completes.
func faultyForward(r *rand.Rand, idx int) {
	stop := watchdog(fmt.Sprintf("history %d with a refused upstream reply (raw forward answered by an oversized length prefix)", idx), 10*time.Second)
	defer stop()
	viaConn := idx%2 == 1
	s, err := newSUT(viaConn, idx%4 >= 2, nil)
	if err != nil {
		emit(map[string]interface{}{"kind": "setup-error", "error": err.Error()})
		return
	}
	defer s.close()
	nth := 2 + r.Intn(3)
	callers := make([]caller, nth)
	for t := range callers {
		if callers[t], err = s.caller(); err != nil {
			emit(map[string]interface{}{"kind": "setup-error", "error": err.Error()})
			return
		}
	}
	var wg sync.WaitGroup
	problems := make([]string, nth)
	for t := range callers {
		wg.Add(1)
		go func(t int) {
			defer wg.Done()
			c := callers[t]
			if t == 0 {
				if _, err := c.Forward(append([]byte{faultMark}, newTag()...)); err == nil {
					problems[t] = "Forward returned a reply although the upstream's length prefix was above the bound"
				}
			} else {
				_, _ = c.List()
			}
			// afterwards everybody can still work
			if ok, d := forwardTagged(c, r); !ok && !viaConn {
				problems[t] = "after the refused reply: " + d
			}
			_, _ = c.List()
		}(t)
	}
	wg.Wait()
	for _, p := range problems {
		if p != "" {
			emit(map[string]interface{}{"kind": "faulty-problem", "what": p})
		}
	}
	emit(map[string]interface{}{"kind": "faulty-ok", "threads": nth})
}

// twoShimsOneUpstream: two shim agents in one process in front of the same underlying agent (the same socket
// address), each used by its own clients at the same time.  Each shim has its own connection to the agent and its own
// lock; the clients of one are not disturbed by the clients of the other: every raw request gets the reply to itself,
// every listing succeeds.
func twoShimsOneUpstream(r *rand.Rand) {
	stop := watchdog("two shim agents over one underlying agent", 60*time.Second)
	defer stop()
	up, err := startUpstream()
	if err != nil {
		emit(map[string]interface{}{"kind": "setup-error", "error": err.Error()})
		return
	}
	defer up.close()
	atomic.StoreInt32(&listDelayMs, 3)
	defer atomic.StoreInt32(&listDelayMs, 0)
	var shims []shimagent.ShimAgent
	for i := 0; i < 2; i++ {
		sh, err := shimagent.New(shimagent.Option{Address: up.sock})
		if err != nil {
			emit(map[string]interface{}{"kind": "setup-error", "error": err.Error()})
			return
		}
		shims = append(shims, sh)
	}
	var mu sync.Mutex
	var problems []string
	var wg sync.WaitGroup
	for si, sh := range shims {
		for t := 0; t < 2; t++ {
			wg.Add(1)
			go func(si, t int, sh shimagent.ShimAgent) {
				defer wg.Done()
				for k := 0; k < 40; k++ {
					if (k+t)%3 == 0 {
						if _, err := sh.List(); err != nil {
							mu.Lock()
							problems = append(problems, fmt.Sprintf("shim %d client %d: List: %v", si, t, err))
							mu.Unlock()
						}
						continue
					}
					if ok, d := forwardTagged(sh, r); !ok {
						mu.Lock()
						problems = append(problems, fmt.Sprintf("shim %d client %d: %s", si, t, d))
						mu.Unlock()
					}
				}
			}(si, t, sh)
		}
	}
	wg.Wait()
	for _, sh := range shims {
		core.Guard(func() { _ = sh.Close() })
	}
	if len(problems) > 0 {
		emit(map[string]interface{}{"kind": "slow-problem", "what": "two shim agents over one underlying agent: " + problems[0], "count": len(problems)})
	} else {
		emit(map[string]interface{}{"kind": "slow-ok"})
	}
}

// refusedThenForward: a request the shim refuses without needing the underlying agent's answer (a hardware
// "certificate" that is a plain key, a certificate over a key the agent does not hold), directly followed by a raw
// request of the same or of another client: whatever the refused request started must be over before the next
// operation talks to the underlying agent - the raw request gets the reply to itself.
func refusedThenForward(r *rand.Rand) {
	stop := watchdog("history of refused requests followed by raw requests", 60*time.Second)
	defer stop()
	atomic.StoreInt32(&listDelayMs, 4)
	defer atomic.StoreInt32(&listDelayMs, 0)
	for _, viaConn := range []bool{false, true} {
		s, err := newSUT(viaConn, false, nil)
		if err != nil {
			emit(map[string]interface{}{"kind": "setup-error", "error": err.Error()})
			return
		}
		m := newMaterial(r, 3)
		const nth = 3
		callers := make([]caller, nth)
		for t := range callers {
			if callers[t], err = s.caller(); err != nil {
				emit(map[string]interface{}{"kind": "setup-error", "error": err.Error()})
				s.close()
				return
			}
		}
		_ = callers[0].Add(m.addedKey(0))
		orphan := m.newCert(r, 2, time.Now().Add(time.Hour), "verif-orphan") // over a key the agent does not hold
		var mu sync.Mutex
		var problems []string
		var wg sync.WaitGroup
		for t := range callers {
			wg.Add(1)
			go func(t int) {
				defer wg.Done()
				for k := 0; k < 30; k++ {
					var rerr error
					switch (t + k) % 3 {
					case 0:
						rerr = callers[t].AddHardCert(m.pubs[0], "not a certificate")
					case 1:
						rerr = callers[t].AddHardCert(orphan, "orphan")
					default:
						_, rerr = callers[t].Sign(m.pubs[1], []byte("no such key")) // a key nobody holds
					}
					if rerr == nil {
						mu.Lock()
						problems = append(problems, fmt.Sprintf("client %d: a request that must be refused succeeded", t))
						mu.Unlock()
					}
					if ok, d := forwardTagged(callers[t], r); !ok {
						mu.Lock()
						problems = append(problems, fmt.Sprintf("client %d, raw request right after a refused request: %s", t, d))
						mu.Unlock()
					}
				}
				if _, err := callers[t].List(); err != nil {
					mu.Lock()
					problems = append(problems, fmt.Sprintf("client %d, List after the refused requests: %v", t, err))
					mu.Unlock()
				}
			}(t)
		}
		wg.Wait()
		s.close()
		if len(problems) > 0 {
			emit(map[string]interface{}{"kind": "slow-problem", "what": "refused requests followed by raw requests: " + problems[0], "count": len(problems), "via_connections": viaConn})
		} else {
			emit(map[string]interface{}{"kind": "slow-ok", "via_connections": viaConn})
		}
	}
}

// identicalForwards: several clients send the SAME raw request (byte for byte) at the same time, several times; the
// upstream numbers the requests it serves.  Every request must be served (the count at the end is the number of
// requests sent) and every caller gets the reply to its own request: no number is handed out twice.
func identicalForwards(r *rand.Rand) {
	stop := watchdog("history of identical raw requests", 40*time.Second)
	defer stop()
	for _, viaConn := range []bool{false, true} {
		s, err := newSUT(viaConn, false, nil)
		if err != nil {
			emit(map[string]interface{}{"kind": "setup-error", "error": err.Error()})
			return
		}
		const nth, rounds = 4, 3
		callers := make([]caller, nth)
		for t := range callers {
			if callers[t], err = s.caller(); err != nil {
				emit(map[string]interface{}{"kind": "setup-error", "error": err.Error()})
				s.close()
				return
			}
		}
		req := append([]byte{countMark, 0, 120}, []byte("remove the smartcard key of reader 0")...)
		before := atomic.LoadUint64(&countServed)
		var mu sync.Mutex
		seen := map[uint64]int{}
		var problems []string
		var wg sync.WaitGroup
		for t := range callers {
			wg.Add(1)
			go func(t int) {
				defer wg.Done()
				for k := 0; k < rounds; k++ {
					resp, err := callers[t].Forward(append([]byte(nil), req...))
					mu.Lock()
					switch {
					case err != nil:
						problems = append(problems, fmt.Sprintf("client %d: error %q", t, err.Error()))
					case len(resp) != 1+len(req)+8 || resp[0] != echoMark || !bytes.Equal(resp[1:1+len(req)], req):
						problems = append(problems, fmt.Sprintf("client %d: reply is not the echo of its request: %s", t, describeReply(resp)))
					default:
						seen[binary.BigEndian.Uint64(resp[1+len(req):])]++
					}
					mu.Unlock()
				}
			}(t)
		}
		wg.Wait()
		served := atomic.LoadUint64(&countServed) - before
		s.close()
		for n, k := range seen {
			if k > 1 {
				problems = append(problems, fmt.Sprintf("the reply to request number %d of the underlying agent was handed to %d callers", n-before, k))
			}
		}
		if served != nth*rounds {
			problems = append(problems, fmt.Sprintf("%d identical raw requests were sent by %d clients, the underlying agent served %d", nth*rounds, nth, served))
		}
		if len(problems) > 0 {
			emit(map[string]interface{}{"kind": "slow-problem", "what": "identical raw requests from several clients: " + problems[0], "all": problems, "via_connections": viaConn})
		} else {
			emit(map[string]interface{}{"kind": "slow-ok", "via_connections": viaConn})
		}
	}
}

// slowForward: the upstream answers one raw request only after 5.5 s (it does answer).  The caller of that request
// gets that answer; the clients that were waiting meanwhile, and everybody afterwards, get the replies to their OWN requests.
func slowForward(r *rand.Rand) {
	stop := watchdog("history with an upstream reply that takes 5.5 s", 40*time.Second)
	defer stop()
	for _, viaConn := range []bool{false, true} {
		s, err := newSUT(viaConn, false, nil)
		if err != nil {
			emit(map[string]interface{}{"kind": "setup-error", "error": err.Error()})
			return
		}
		nth := 3
		callers := make([]caller, nth)
		for t := range callers {
			if callers[t], err = s.caller(); err != nil {
				emit(map[string]interface{}{"kind": "setup-error", "error": err.Error()})
				s.close()
				return
			}
		}
		// signer objects a client obtained earlier (a hardware certificate and an agent key): using them later is one
		// more way of talking to the underlying agent, and must wait its turn like every other operation
		m := newMaterial(r, 2)
		var kept []ssh.Signer
		if err := callers[0].Add(m.addedKey(0)); err == nil {
			ci := m.addHardCert(r, 0, time.Now().Add(time.Hour))
			if err := callers[0].AddHardCert(m.certs[ci], "hw"); err == nil {
				if sg, err := callers[1].Signers(); err == nil {
					kept = sg
				}
			}
		}
		var wg sync.WaitGroup
		problems := make([]string, nth)
		started := make(chan struct{})
		for t := range callers {
			wg.Add(1)
			go func(t int) {
				defer wg.Done()
				c := callers[t]
				if t == 1 && len(kept) > 0 {
					<-started
					time.Sleep(150 * time.Millisecond)
					for _, sg := range kept {
						data := append([]byte("kept-signer "), newTag()...)
						sig, err := sg.Sign(rngReader{r}, data)
						if err != nil {
							problems[t] = fmt.Sprintf("a signer obtained from Signers() earlier, used while another client waits for a slow reply: error %q", err.Error())
						} else if verr := sg.PublicKey().Verify(data, sig); verr != nil {
							problems[t] = "a signer obtained from Signers() earlier, used while another client waits for a slow reply: the signature does not verify: " + verr.Error()
						}
					}
				}
				if t == 0 {
					tag := newTag()
					req := append([]byte{slowMark, 5500 >> 8, 5500 & 0xff}, tag...)
					close(started)
					resp, err := c.Forward(req)
					switch {
					case err != nil:
						problems[t] = fmt.Sprintf("the request the upstream answered after 5.5 s: error %q instead of its reply", err.Error())
					case !bytes.Equal(resp, append([]byte{echoMark}, req...)):
						problems[t] = "the request the upstream answered after 5.5 s: reply is not the echo of this request: " + describeReply(resp)
					}
				} else {
					<-started
					time.Sleep(time.Duration(100*t) * time.Millisecond)
				}
				for k := 0; k < 2; k++ {
					if ok, d := forwardTagged(c, r); !ok {
						problems[t] = fmt.Sprintf("client %d, beside / after the slow reply: %s", t, d)
					}
				}
				if _, err := c.List(); err != nil && problems[t] == "" {
					problems[t] = fmt.Sprintf("client %d, List after the slow reply: %v", t, err)
				}
			}(t)
		}
		wg.Wait()
		s.close()
		bad := false
		for _, p := range problems {
			if p != "" {
				bad = true
				emit(map[string]interface{}{"kind": "slow-problem", "what": p, "via_connections": viaConn})
			}
		}
		if !bad {
			emit(map[string]interface{}{"kind": "slow-ok", "via_connections": viaConn})
		}
	}
}

func modeProbe(r *rand.Rand) {
	methods := []string{"List", "Signers", "Sign", "SignWithFlags", "Add", "Remove", "RemoveAll", "AddHardCert",
		"Lock", "Unlock", "Extension", "Forward", "Wait", "Broadcast", "Close"}
	for _, name := range methods {
		stop := watchdog("mode probe "+name, 20*time.Second)
		m := newMaterial(r, 3)
		ci := m.addHardCert(r, 0, time.Now().Add(time.Hour))
		var gateOn int32
		entered := make(chan struct{}, 1)
		release := make(chan struct{})
		comp := func(a, b ssh.PublicKey) bool {
			if atomic.CompareAndSwapInt32(&gateOn, 1, 2) {
				entered <- struct{}{}
				<-release
			}
			return bytes.Compare(a.Marshal(), b.Marshal()) < 0
		}
		s, err := newSUT(false, false, comp)
		if err != nil {
			emit(map[string]interface{}{"kind": "setup-error", "error": err.Error()})
			stop()
			return
		}
		for k := 0; k < 3; k++ {
			_ = s.up.keyring.Add(m.addedKey(k))
		}
		sh := s.direct
		atomic.StoreInt32(&gateOn, 1)
		listDone := make(chan struct{})
		go func() { core.Guard(func() { _, _ = sh.List() }); close(listDone) }()
		select {
		case <-entered:
		case <-time.After(5 * time.Second):
			emit(map[string]interface{}{"kind": "setup-error", "error": "List never reached the comparison function"})
			stop()
			s.close()
			return
		}
		done := make(chan struct{})
		go func() {
			core.Guard(func() {
				switch name {
				case "List":
					_, _ = sh.List()
				case "Signers":
					_, _ = sh.Signers()
				case "Sign":
					_, _ = sh.Sign(m.pubs[0], []byte("d"))
				case "SignWithFlags":
					_, _ = sh.SignWithFlags(m.pubs[0], []byte("d"), 0)
				case "Add":
					_ = sh.Add(m.addedKey(1))
				case "Remove":
					_ = sh.Remove(m.pubs[2])
				case "RemoveAll":
					_ = sh.RemoveAll()
				case "AddHardCert":
					_ = sh.AddHardCert(m.certs[ci], "hw")
				case "Lock":
					_ = sh.Lock([]byte("p"))
				case "Unlock":
					_ = sh.Unlock([]byte("p"))
				case "Extension":
					_, _ = sh.Extension("verif@c11", []byte("x"))
				case "Forward":
					_, _ = sh.Forward([]byte{0xF0, 1, 2, 3})
				case "Wait":
					_ = sh.Wait(200)
				case "Broadcast":
					type bc interface{ Broadcast(byte) error }
					if b, ok := sh.(bc); ok {
						_ = b.Broadcast(5)
					}
				case "Close":
					_ = sh.Close()
				}
			})
			close(done)
		}()
		blocks := true
		select {
		case <-done:
			blocks = false
		case <-time.After(500 * time.Millisecond):
		}
		close(release)
		<-listDone
		<-done
		stop()
		s.close()
		emit(map[string]interface{}{"kind": "mode", "method": name, "blocks": blocks})
	}
}
