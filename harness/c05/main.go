package main

import (
	"encoding/json"
	"fmt"
	"math"
	"math/rand"
	"reflect"
	"strconv"
	"strings"
	"unicode/utf8"

	"github.com/theparanoids/ysshra/keyid"
	"verifharness/core"
)

func main() {
	core.Main("C05", &core.Driver{
		Imports:  "From Verif Require Import Lib.Base Lib.Json Model.KeyId Model.C05Check.",
		CheckFn:  "C05Check.check",
		ClassFn:  "C05Check.classify",
		CaseType: "C05Check.case",
		Run:      runC05,
	})
}

func gKeyID(k *keyid.KeyID) string {
	prins := "None"
	if k.Principals != nil {
		prins = "(Some " + core.GStrList(k.Principals) + ")"
	}
	return core.GApp("mkKeyID", prins, core.GStr(k.TransID), core.GStr(k.ReqUser), core.GStr(k.ReqIP), core.GStr(k.ReqHost),
		core.GBool(k.IsFirefighter), core.GBool(k.IsHWKey), core.GBool(k.IsHeadless), core.GBool(k.IsNonce),
		core.GZ(int64(k.Usage)), core.GZ(int64(k.TouchPolicy)), core.GN(uint64(k.Version)))
}

func genKeyIDValue(r *rand.Rand) *keyid.KeyID {
	k := &keyid.KeyID{}
	switch r.Intn(4) {
	case 0:
		k.Principals = nil
	case 1:
		k.Principals = []string{}
	default:
		k.Principals = core.GenTextList(r, 5)
	}
	k.TransID, k.ReqUser, k.ReqIP, k.ReqHost = core.GenText(r), core.GenText(r), core.GenText(r), core.GenText(r)
	flags := r.Intn(16)
	if r.Intn(3) == 0 { // bias towards few flags so that consistent KeyIDs are common
		flags = core.Pick(r, 0, 1, 2, 4, 8, 3)
	}
	k.IsFirefighter, k.IsHWKey, k.IsHeadless, k.IsNonce = flags&1 != 0, flags&2 != 0, flags&4 != 0, flags&8 != 0
	k.TouchPolicy = keyid.TouchPolicy(core.Pick[int64](r, 1, 1, 1, 0, 2, 3, -1, 4, 5, 1<<31, math.MinInt64, math.MaxInt64))
	k.Usage = keyid.Usage(core.Pick[int64](r, 0, 0, 1, 2, -1, math.MaxInt64, math.MinInt64))
	k.Version = core.Pick[uint16](r, 1, 1, 1, 1, 0, 2, 65535)
	return k
}

// ordered JSON object builder (keys may repeat)
type kv struct{ k, v string }

func renderObj(kvs []kv) string {
	var parts []string
	for _, p := range kvs {
		kb, _ := json.Marshal(p.k)
		parts = append(parts, string(kb)+":"+p.v)
	}
	return "{" + strings.Join(parts, ",") + "}"
}

func genJSONValue(r *rand.Rand, depth int) string {
	switch r.Intn(12) {
	case 0:
		return "null"
	case 1:
		return core.Pick(r, "true", "false")
	case 2, 3:
		return core.Pick(r, "0", "1", "2", "3", "-1", "-0", "1.0", "1e2", "65535", "65536", "0.5", "1E0",
			"9223372036854775807", "9223372036854775808", "-9223372036854775808", "-9223372036854775809", "4", "100")
	case 4, 5, 6:
		b, _ := json.Marshal(core.GenText(r))
		return string(b)
	case 7, 8:
		if depth <= 0 {
			return "[]"
		}
		n := r.Intn(4)
		var xs []string
		for i := 0; i < n; i++ {
			if r.Intn(3) > 0 {
				b, _ := json.Marshal(core.GenText(r))
				xs = append(xs, string(b))
			} else {
				xs = append(xs, genJSONValue(r, depth-1))
			}
		}
		return "[" + strings.Join(xs, ",") + "]"
	default:
		if depth <= 0 {
			return "{}"
		}
		n := r.Intn(3)
		var kvs []kv
		for i := 0; i < n; i++ {
			kvs = append(kvs, kv{core.GenText(r), genJSONValue(r, depth-1)})
		}
		return renderObj(kvs)
	}
}

func caseVariants(r *rand.Rand, k string) string {
	switch r.Intn(5) {
	case 0:
		return strings.ToUpper(k)
	case 1:
		return strings.ToLower(k)
	case 2: // Kelvin sign / long s fold onto k / s
		return strings.NewReplacer("k", "K", "s", "ſ", "K", "K", "S", "ſ").Replace(k)
	case 3:
		return strings.Title(k)
	default:
		if len(k) > 1 {
			return k[:len(k)-1]
		}
		return k + "x"
	}
}

func runC05(c *core.Ctx) {
	r := c.Rng
	// decoding is a function of the text: decoding the same text again - after the caller has modified what the
	// first call returned - gives the same KeyID (no state is shared between results, or kept between calls)
	redecode := func(text string, first *keyid.KeyID) {
		if first == nil {
			return
		}
		snap := *first
		if first.Principals != nil {
			snap.Principals = make([]string, len(first.Principals))
			copy(snap.Principals, first.Principals)
		}
		for i := range first.Principals {
			first.Principals[i] = "MODIFIED-BY-CALLER"
		}
		first.TransID, first.ReqUser = "x", "y"
		var again *keyid.KeyID
		var err error
		if p, msg := core.Guard(func() { again, err = keyid.Unmarshal(text) }); p {
			c.Native("panic in keyid.Unmarshal (second call on the same text): "+msg, text)
			return
		}
		if err != nil || again == nil || !reflect.DeepEqual(*again, snap) {
			c.Native("decoding the same KeyId text a second time gives a different result after the caller modified the first result",
				map[string]interface{}{"text": text, "first": fmt.Sprintf("%#v", snap), "second": fmt.Sprintf("%#v", again), "err": fmt.Sprint(err)})
			return
		}
		*first = snap
		c.NativeCheck(1)
	}
	var prevOut string
	var prevCopy []byte
	emitRound := func(class string, k *keyid.KeyID) {
		var out string
		var err error
		var back *keyid.KeyID
		var berr error
		if p, msg := core.Guard(func() {
			out, err = k.Marshal()
			if err == nil {
				// a text handed out earlier stays what it was, whatever is encoded afterwards
				if prevOut != "" && prevOut != string(prevCopy) {
					c.Native("the text returned by an earlier KeyID.Marshal call changed after a later Marshal call",
						map[string]interface{}{"returned_then": string(prevCopy), "reads_now": strings.Clone(prevOut)})
					prevOut = ""
				} else if prevOut != "" {
					c.NativeCheck(1)
				}
				prevOut, prevCopy = out, []byte(out)
				back, berr = keyid.Unmarshal(out)
				if berr == nil {
					redecode(out, back)
				}
			}
		}); p {
			c.Native("panic in KeyID.Marshal/Unmarshal: "+msg, fmt.Sprintf("%+v", *k))
			return
		}
		enc, dec := "None", "None"
		if err == nil {
			t, ok := core.JSONTree([]byte(out))
			if !ok {
				c.Native("Marshal produced text that is not valid JSON", out)
				return
			}
			enc = "(Some " + t + ")"
			if utf8.ValidString(out) {
				// text level: the Gallina printer must reproduce the encoder's text from the tree
				c.Case(class+"/text", core.GApp("CPrint", t, core.GStr(out)), map[string]interface{}{"op": "print", "text": out})
			}
			if berr == nil {
				dec = "(Some " + gKeyID(back) + ")"
			}
		}
		c.Case(class, core.GApp("CRound", gKeyID(k), enc, dec),
			map[string]interface{}{"op": "Marshal+Unmarshal", "keyid": fmt.Sprintf("%+v", *k), "text": out, "marshal_err": fmt.Sprint(err), "unmarshal_err": fmt.Sprint(berr)})
	}
	emitDecode := func(class string, text string) {
		var back *keyid.KeyID
		var err error
		if p, msg := core.Guard(func() { back, err = keyid.Unmarshal(text) }); p {
			c.Native("panic in keyid.Unmarshal: "+msg, text)
			return
		}
		if err == nil {
			redecode(text, back)
		}
		tree, ok := core.JSONTree([]byte(text))
		dec := "None"
		if err == nil {
			dec = "(Some " + gKeyID(back) + ")"
		}
		c.Case(class, core.GApp("CDecode", core.GOpt(ok, tree), dec),
			map[string]interface{}{"op": "Unmarshal", "text": text, "err": fmt.Sprint(err)})
		if utf8.ValidString(text) && len(text) < 4000 {
			// text level: the Gallina parser must read the text as encoding/json's tokenizer does
			c.Case(class+"/text", core.GApp("CText", core.GStr(text), core.GOpt(ok, tree)), map[string]interface{}{"op": "tokenise", "text": text})
		}
	}

	// (0) corpus / regression seeds
	for _, t := range []string{"null", "", "{}", "[]", "1", `"x"`, `{"ver":1}`,
		`{"prins":["a"],"transID":"t","reqUser":"u","reqIP":"1.2.3.4","reqHost":"h","isFirefighter":false,"isHWKey":false,"isHeadless":false,"isNonce":false,"usage":0,"touchPolicy":1,"ver":1}`} {
		emitDecode("corpus", t)
	}

	// (i) exhaustive flag x touch x version grid with fixed strings
	for flags := 0; flags < 16; flags++ {
		for _, touch := range []int64{-1, 0, 1, 2, 3, 4, 5, 1 << 31, math.MinInt64} {
			for _, ver := range []uint16{0, 1, 2, 65535} {
				if ver != 1 && !(touch == 1 || touch == 0) {
					continue
				}
				k := &keyid.KeyID{Principals: []string{"alice"}, TransID: "t1", ReqUser: "u", ReqIP: "1.2.3.4", ReqHost: "h",
					IsFirefighter: flags&1 != 0, IsHWKey: flags&2 != 0, IsHeadless: flags&4 != 0, IsNonce: flags&8 != 0,
					TouchPolicy: keyid.TouchPolicy(touch), Usage: keyid.Usage(flags % 2), Version: ver}
				emitRound("grid", k)
			}
		}
	}
	// (ii) random KeyID values
	for i, n := 0, c.N(400, 20000); i < n; i++ {
		emitRound("random-value", genKeyIDValue(r))
	}

	// (iii) decode stream: mutations of encoder outputs
	names := []string{"prins", "transID", "reqUser", "reqIP", "reqHost", "isFirefighter", "isHWKey", "isHeadless", "isNonce", "usage", "touchPolicy", "ver"}
	baseKVs := func() []kv {
		var k *keyid.KeyID
		for {
			k = genKeyIDValue(r)
			if r.Intn(4) > 0 {
				k.Version = 1
			}
			var err error
			if p, _ := core.Guard(func() { _, err = k.Marshal() }); p {
				continue // a crash of the encoder is reported where the encoder is under test (emitRound)
			}
			if err == nil || r.Intn(5) == 0 {
				break
			}
		}
		b, _ := json.Marshal(k)
		var m map[string]json.RawMessage
		json.Unmarshal(b, &m)
		var kvs []kv
		for _, n := range names {
			kvs = append(kvs, kv{n, string(m[n])})
		}
		return kvs
	}
	// a numeric member shadowed by a case variant of its name carrying ANOTHER value (struct decoding matches names
	// case-insensitively, the last match wins; a lookup by exact name sees the other one): version, touch policy, usage
	for i, n := 0, c.N(40, 1200); i < n; i++ {
		kvs := baseKVs()
		field := core.Pick(r, "ver", "ver", "touchPolicy", "usage")
		var val string
		switch field {
		case "ver":
			val = core.Pick(r, "0", "2", "7", "65535", "65536", "-1", "1")
		case "touchPolicy":
			val = core.Pick(r, "0", "1", "2", "3", "4", "100", "-1")
		default:
			val = core.Pick(r, "0", "1", "2", "-1")
		}
		variant := kv{caseVariants(r, field), val}
		if variant.k == field {
			variant.k = strings.ToUpper(field)
		}
		pos := len(kvs) // after the exact member: the variant wins in the struct
		if r.Intn(3) == 0 {
			pos = r.Intn(len(kvs) + 1)
		}
		kvs = append(kvs[:pos:pos], append([]kv{variant}, kvs[pos:]...)...)
		emitDecode("numeric-member-shadowed-by-case-variant", renderObj(kvs))
	}
	for i, n := 0, c.N(120, 6000); i < n; i++ {
		for fi := range names {
			kvs := baseKVs()
			switch i % 6 {
			case 0: // delete one field; in half of the cases its name still occurs elsewhere in the text
				name := kvs[fi].k
				kvs = append(kvs[:fi:fi], kvs[fi+1:]...)
				class := "delete-field"
				switch r.Intn(8) {
				case 0: // as the value of a string field
					for j := range kvs {
						if strings.HasPrefix(kvs[j].v, "\"") {
							kvs[j].v = strconv.Quote(name)
							break
						}
					}
					class = "delete-field-name-as-value"
				case 1: // as a key of a nested unknown object
					kvs = append(kvs, kv{"extra", renderObj([]kv{{name, "1"}})})
					class = "delete-field-name-nested"
				case 2: // as a principal
					for j := range kvs {
						if kvs[j].k == "prins" {
							kvs[j].v = "[" + strconv.Quote(name) + "]"
						}
					}
					class = "delete-field-name-as-principal"
				case 3: // inside a longer key
					kvs = append(kvs, kv{name + "2", "1"}, kv{"x" + name, "true"})
					class = "delete-field-name-in-longer-key"
				case 4, 5: // another required field repeated (once or twice): the NUMBER of required members is right, the set is not
					if len(kvs) > 0 {
						d := kvs[r.Intn(len(kvs))]
						for n := 1 + r.Intn(2); n > 0; n-- {
							pos := r.Intn(len(kvs) + 1)
							kvs = append(kvs[:pos:pos], append([]kv{d}, kvs[pos:]...)...)
						}
						class = "delete-field-and-repeat-another"
					}
				}
				emitDecode(class, renderObj(kvs))
			case 1: // rename in case / near miss
				kvs[fi].k = caseVariants(r, kvs[fi].k)
				emitDecode("rename-field", renderObj(kvs))
			case 2: // duplicate with same or conflicting value
				dup := kvs[fi]
				if r.Intn(2) == 0 {
					other := baseKVs()
					dup.v = other[fi].v
				}
				if r.Intn(3) == 0 {
					dup.k = caseVariants(r, dup.k)
				}
				pos := r.Intn(len(kvs) + 1)
				kvs = append(kvs[:pos:pos], append([]kv{dup}, kvs[pos:]...)...)
				emitDecode("duplicate-field", renderObj(kvs))
			case 3: // retype
				kvs[fi].v = genJSONValue(r, 2)
				emitDecode("retype-field", renderObj(kvs))
			case 4: // add unknown keys / shuffle
				kvs = append(kvs, kv{core.GenText(r), genJSONValue(r, 2)})
				r.Shuffle(len(kvs), func(a, b int) { kvs[a], kvs[b] = kvs[b], kvs[a] })
				emitDecode("extra-and-shuffle", renderObj(kvs))
			default: // two mutations
				kvs[fi].v = genJSONValue(r, 1)
				fj := r.Intn(len(kvs))
				kvs[fj].k = caseVariants(r, kvs[fj].k)
				emitDecode("two-mutations", renderObj(kvs))
			}
		}
	}
	// (iv) arbitrary JSON values and arbitrary bytes
	for i, n := 0, c.N(200, 10000); i < n; i++ {
		emitDecode("arbitrary-json", genJSONValue(r, 3))
	}
	for i, n := 0, c.N(150, 10000); i < n; i++ {
		b := make([]byte, r.Intn(40))
		for j := range b {
			if r.Intn(3) == 0 {
				b[j] = byte(r.Intn(256))
			} else {
				const alphabet = `{}[]":,0123456789.-eEtruefalsn \\uprinsver`
				b[j] = alphabet[r.Intn(len(alphabet))]
			}
		}
		// truncated valid text
		if r.Intn(2) == 0 {
			t := renderObj(baseKVs())
			b = []byte(t[:r.Intn(len(t)+1)])
		}
		emitDecode("arbitrary-bytes", string(b))
	}
}
